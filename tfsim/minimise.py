"""Minimisation of failing cases: delta debugging over the concrete operation
list (the model recomputes expectations for any subsequence, so every
subsequence is a valid test), then argument, configuration and fault
simplification.  A candidate is accepted only if the same property and oracle
still fail."""

import copy
import time

from .world import DEFAULT_CFG


def _same(r, key):
    return r.violation is not None and \
        (r.violation["property"], r.violation["oracle"]) == key


def minimise(prop, cfg, ops, key, how, budget_s=20.0):
    from .runner import evaluate
    t_end = time.time() + budget_s
    tests = [0]

    def fails(c, o):
        if time.time() > t_end:
            return False
        tests[0] += 1
        return _same(evaluate(prop, c, o, how), key)

    cfg = dict(cfg)
    ops = [copy.deepcopy(o) for o in ops]
    # 0. cut everything after the failing operation
    r = evaluate(prop, cfg, ops, how)
    if not _same(r, key):
        return cfg, ops, tests[0]
    cut = r.violation["op_index"] + 1
    if cut < len(ops) and fails(cfg, ops[:cut]):
        ops = ops[:cut]
    # 1. ddmin over the operation list
    n = 2
    while len(ops) >= 2 and time.time() < t_end:
        chunk = max(1, len(ops) // n)
        reduced = False
        for i in range(0, len(ops), chunk):
            cand = ops[:i] + ops[i + chunk:]
            if cand and fails(cfg, cand):
                ops = cand
                n = max(n - 1, 2)
                reduced = True
                break
        if not reduced:
            if chunk == 1:
                break
            n = min(n * 2, len(ops))
    # 2. configuration towards defaults
    for k in list(cfg):
        if k in DEFAULT_CFG and cfg[k] != DEFAULT_CFG[k]:
            c2 = dict(cfg)
            c2[k] = DEFAULT_CFG[k]
            if fails(c2, ops):
                cfg = c2
    # 3. per-operation simplification
    changed = True
    while changed and time.time() < t_end:
        changed = False
        for i in range(len(ops)):
            for cand_op in _simpler(ops[i]):
                cand = ops[:i] + [cand_op] + ops[i + 1:]
                if fails(cfg, cand):
                    ops = cand
                    changed = True
                    break
    return cfg, ops, tests[0]


def _simpler(op):
    """Candidate simplifications of one operation (each strictly smaller)."""
    for k in ("scan", "compact", "gen", "hmode", "sorted"):
        if k in op:
            o = copy.deepcopy(op)
            del o[k]
            yield o
    if op.get("via") == "h":
        o = copy.deepcopy(op)
        del o["via"]
        o.pop("hmode", None)
        if o["op"] not in ("len", "all", "iter", "remove_all", "update_all"):
            yield o
    elif "m" in op and op["op"] not in ("drop",):
        o = copy.deepcopy(op)
        del o["m"]
        yield o
    if isinstance(op.get("q"), dict) and "k" in op["q"]:
        for q2 in _simpler_query(op["q"]):
            o = copy.deepcopy(op)
            o["q"] = q2
            yield o
    if "spec" in op and len(op["spec"]) > 1 and not op.get("cfault"):
        for k in op["spec"]:
            o = copy.deepcopy(op)
            del o["spec"][k]
            yield o
    if "pt" in op:
        for p2 in _simpler_point(op["pt"]):
            o = copy.deepcopy(op)
            o["pt"] = p2
            yield o
    if "pts" in op:
        if not op.get("poison"):
            for i in range(len(op["pts"])):
                o = copy.deepcopy(op)
                del o["pts"][i]
                yield o
        for i, pt in enumerate(op["pts"]):
            for p2 in _simpler_point(pt):
                o = copy.deepcopy(op)
                o["pts"][i] = p2
                yield o
    if op.get("op") == "reopen" and op.get("cfg"):
        for k in op["cfg"]:
            o = copy.deepcopy(op)
            del o["cfg"][k]
            yield o
    if "keys" in op and isinstance(op["keys"], list) and len(op["keys"]) > 1:
        for i in range(len(op["keys"])):
            o = copy.deepcopy(op)
            del o["keys"][i]
            yield o


def _simpler_query(q):
    k = q["k"]
    if k in ("and", "or"):
        yield q["a"]
        yield q["b"]
        for a2 in _simpler_query(q["a"]):
            yield {"k": k, "a": a2, "b": q["b"]}
        for b2 in _simpler_query(q["b"]):
            yield {"k": k, "a": q["a"], "b": b2}
    elif k == "not":
        yield q["q"]
        for q2 in _simpler_query(q["q"]):
            yield {"k": "not", "q": q2}
    else:
        if q.get("maps"):
            q2 = dict(q)
            del q2["maps"]
            if k in ("cmp", "exists", "noop") or (k == "test" and q[
                    "attr"] in ("tag", "field", "measurement")):
                yield q2


def _simpler_point(pt):
    if pt.get("raw") is not None or pt.get("mutate"):
        return
    for k in ("ctor", "m"):
        if k in pt:
            p = dict(pt)
            del p[k]
            yield p
    for k in ("tags", "fields"):
        if pt.get(k):
            p = copy.deepcopy(pt)
            del p[k]
            yield p
            if len(pt[k]) > 1:
                for kk in pt[k]:
                    p = copy.deepcopy(pt)
                    del p[k][kk]
                    yield p
