"""Self-tests of the machinery: determinism, SimDisk conformance,
sensitivity (see DESIGN.md section 8)."""

import json
import os
import subprocess
import sys
import time

HERE = os.path.dirname(os.path.dirname(os.path.abspath(__file__)))
PROPS = ["C01", "C02", "C03", "C04", "C05", "C06", "C07", "C08", "C10",
         "C11", "C12", "C13", "C14", "C15", "C16"]


def digests(prop, n, base=0):
    from . import runner
    agg = runner.run_seeds(prop, "quick", list(range(base, base + n)))
    if agg.harness:
        raise SystemExit("HARNESS-ERROR %s" % (agg.harness[0],))
    return {str(k): v for k, v in agg.digests.items()}


def _sub_digests(prop, n, hashseed, base=0):
    env = dict(os.environ)
    env["PYTHONHASHSEED"] = str(hashseed)
    env["VERIF_NO_REEXEC"] = "1"
    p = subprocess.run(
        [sys.executable, "-m", "tfsim.cli", "digests", "--property", prop,
         "--n", str(n), "--base", str(base)],
        cwd=HERE, env=env, capture_output=True, text=True, timeout=1800)
    if p.returncode != 0:
        raise SystemExit("digest subprocess failed: %s" % p.stderr[-2000:])
    return json.loads(p.stdout.strip().splitlines()[-1])


def determinism(tier):
    """Every seed twice in one process, once in a fresh interpreter, once
    under another PYTHONHASHSEED: event-log digests must be identical."""
    n = {"quick": 60, "thorough": 1500}.get(tier, 60)
    bad = 0
    t0 = time.time()
    total = 0
    for prop in PROPS:
        m = n if prop not in ("C12", "C13") else max(n // 6, 10)
        a = digests(prop, m)
        b = digests(prop, m)
        c = _sub_digests(prop, m, 0)
        d = _sub_digests(prop, m, 4242)
        total += m
        for s in a:
            if not (a[s] == b.get(s) == c.get(s) == d.get(s)):
                bad += 1
                print("NONDETERMINISTIC property=%s seed=%s %s %s %s %s"
                      % (prop, s, a[s][:10], str(b.get(s))[:10],
                         str(c.get(s))[:10], str(d.get(s))[:10]))
        print("determinism %s: %d seeds x 4 executions ok=%s"
              % (prop, m, bad == 0))
        sys.stdout.flush()
    print("determinism: %d seeds, %d divergent, %.1fs"
          % (total, bad, time.time() - t0))
    return 1 if bad else 0


def main(which, tier):
    if which == "determinism":
        return determinism(tier)
    if which == "simdisk":
        from . import conformance
        return conformance.main(tier)
    if which == "sensitivity":
        from . import sensitivity
        return sensitivity.main(tier)
    print("unknown selftest %r" % which)
    return 2
