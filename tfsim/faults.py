"""Judging operations under injected crashes (C12) and I/O errors (C13)."""

import copy

from . import catalog
from .csvdecode import DecodeError
from .model import Model
from .world import (DB_PATH, INSERTS, READS, REWRITES, Violation, Outcome,
                    diff_points, exc_chain, _brief, QUERY_READS, GETTERS)


def admissible_after(world, ctx):
    """States the interrupted operation may leave: old, new, and for
    insert_multiple every prefix of the new points."""
    pre = ctx["pre_model"]
    post = world.model
    states = [pre]
    if ctx["k"] == "insert_multiple":
        extra = post.points[len(pre.points):]
        for n in range(1, len(extra)):
            m = pre.copy()
            m.points.extend(p.copy() for p in extra[:n])
            m.next_uid = post.next_uid
            states.append(m)
    # flush_on_insert=False (C12 only): rows acknowledged by earlier inserts
    # may still sit in the dying process's buffer; they reach the file in
    # order, so the old contents may lack a suffix of them
    pend = 0
    if world.prop == "C12" and world.csv and \
            not world.cfg["flush_on_insert"]:
        pend = min(ctx.get("pre_pending", 0), len(pre.points))
    for j in range(1, pend + 1):
        m = pre.copy()
        del m.points[len(m.points) - j:]
        m.lost_tail = j
        states.append(m)
    if not post.same_state(pre):
        states.append(post)
    return states


def match_state(actual, states):
    for s in states:
        if diff_points(actual, s.points) is None:
            return s
    return None


def describe(actual, states):
    d = diff_points(actual, states[0].points)
    d2 = diff_points(actual, states[-1].points)
    return "vs old: %s | vs new: %s" % (d[1] if d else "equal",
                                        d2[1] if d2 else "equal")


# ------------------------------------------------------------------ C12
def after_crash(world, ctx):
    i, op, k = ctx["i"], ctx["op"], ctx["k"]
    P = world.prop
    owners = {"C12"}
    states = admissible_after(world, ctx)
    world.probe("crash-injected")
    f = ctx["fired"][0] if ctx["fired"] else None
    if f is not None and f.fired[0] in ("copy-open-dst", "copy-chunk",
                                       "rename", "chmod"):
        world.probe("crash-in-swap-window")
    if any(p != DB_PATH for p in world.disk.files):
        world.probe("crash-left-temp-file")
    # 1. the surviving file decodes to an admissible state
    world.evals += 1
    try:
        actual = world.observe()
    except DecodeError as e:
        world.fail_hard(owners, "crash-file-undecodable",
                   "process died in %s %s at step %s (%s); the surviving "
                   "file does not decode: %s"
                   % (k, _brief(op), f.step if f else "?",
                      f.fired if f else "?", e), i)
    s = match_state(actual, states)
    if s is None:
        world.fail_hard(owners, "crash-neither-old-nor-new",
                   "process died in %s %s at step %s (%s); surviving file "
                   "holds %d points: %s"
                   % (k, _brief(op), f.step if f else "?",
                      f.fired if f else "?", len(actual),
                      describe(actual, states)), i)
    world.nontrivial.add((k, f.fired if f else None,
                          "old" if s is states[0] else "new",
                          len(ctx["pre_model"].points)))
    # what the interrupted operation amounted to (for the fault-free control)
    if s is states[0]:
        world.control_plan[i] = ("drop", "reopen")
    elif s is states[-1] and not s.same_state(states[0]):
        world.control_plan[i] = ("keep", "reopen")
        if k == "insert_multiple" and len(states) > 2:
            world.control_plan[i] = ("keep", "reopen")
    if getattr(s, "lost_tail", 0):
        world.probe("crash-lost-buffered-rows")
        world.control_plan[i] = ("drop", "reopen")
    elif k == "insert_multiple" and s is not states[0] and \
            s is not states[-1]:
        world.control_plan[i] = (
            "prefix", "reopen",
            len(s.points) - len(ctx["pre_model"].points))
    # 2. it can be opened again and used
    world.model = s.copy()
    world.db = None
    world.mode = "r+"
    world.disk.begin_op(i)
    world.disk.armed = {}
    out = world.execute(i, {"op": "reopen", "how": "abandon"})
    world.disk.end_op()
    if out.kind != "ret":
        world.fail_hard(owners, "crash-reopen-failed",
                   "after a crash in %s at step %s the database cannot be "
                   "opened: %r" % (k, f.step if f else "?", out.exc), i)
    with world.observer():
        out = world.execute(i, {"op": "all", "sorted": False})
    if out.kind != "ret" or diff_points(out.value, s.points) is not None:
        world.fail_hard(owners, "crash-reopen-read",
                   "after a crash in %s the reopened database reads %r"
                   % (k, out.exc if out.kind != "ret" else out.value), i)
    world.probe("recovered-after-crash")


# ------------------------------------------------------------------ C13
def _tolerated_swallow(f):
    kind, role = f.fired
    base = kind.replace("-post", "")
    return base in ("unlink", "close", "chmod") and role != "primary"


def after_io_fault(world, ctx):
    i, op, k, out = ctx["i"], ctx["op"], ctx["k"], ctx["out"]
    owners = {"C13"}
    f = [x for x in ctx["fired"] if x.mode in ("pre", "post")][0]
    world.probe("ioerror-injected")
    world.evals += 1
    world.control_plan.setdefault(i, ("either",))
    if world.prop == "C06":
        # C06 binds error paths too: whatever the failed call left behind,
        # an index that claims to be valid must equal a rebuild
        flushed = True
        if world.csv and world.db is not None:
            # rows the failed call left in the handle's write buffer belong
            # to the logical contents: push them out before reading the file
            try:
                with world.observer():
                    world.db.storage._handle.flush()
                world.pending = 0
            except (OSError, ValueError, AttributeError):
                flushed = False
        try:
            ctx["actual"] = world.observe()
        except DecodeError:
            ctx.pop("actual", None)
        if not flushed:
            ctx.pop("actual", None)
        if "actual" in ctx and world.db is not None:
            world.faulted_index_check = True
            world.check_index(ctx)
        world.nontrivial.add(("after-ioerror", k, f.fired, f.mode))
    if world.prop == "C16" and k in INSERTS:
        # C16 also binds an insert that fails: it still only appends and
        # still reads nothing, however many points are stored
        pre = ctx["pre_bytes"] or b""
        post = world.disk.peek(DB_PATH) or b""
        if not post.startswith(pre):
            world.fail_hard({"C16"}, "failed-insert-not-a-prefix",
                       "%s failed at %s and rewrote existing bytes"
                       % (k, f.fired), i)
        for st in ctx["steps"]:
            if st[3] == "read":
                world.fail_hard({"C16"}, "read-during-failed-insert",
                           "%s failed at %s and read existing data "
                           "(%d-byte read request, %d points stored)"
                           % (k, f.fired, st[5],
                              len(ctx["pre_model"].points)), i)
            if st[4] != "primary":
                world.fail_hard({"C16"}, "failed-insert-foreign-inode",
                           "%s failed at %s and touched %s"
                           % (k, f.fired, st[4]), i)
        world.nontrivial.add(("failed-insert", f.fired, f.mode,
                              len(ctx["pre_model"].points)))
    inj = getattr(world.disk, "last_injected", None)
    states = admissible_after(world, ctx)
    if k in READS or k == "close":
        states = [world.model]
    elif k == "reopen":
        # a reopen in a truncating mode may fail before or after truncating
        states = [ctx["pre_model"]]
        if not world.model.same_state(ctx["pre_model"]):
            states.append(world.model)
    site = "step %d (%s on %s, %s-effect %s)" % (
        f.step, f.fired[0], f.fired[1], f.mode, f.err)
    # (a) the error reaches the caller
    if out.kind == "ret":
        if _tolerated_swallow(f):
            world.count("cleanup-error-tolerated")
        else:
            world.fail_hard(owners, "ioerror-swallowed",
                       "%s %s returned %r although the OS failed %s"
                       % (k, _brief(op), out.value, site), i)
    elif inj is not None and inj not in exc_chain(out.exc):
        world.fail_hard(owners, "ioerror-replaced",
                   "%s raised %r which does not carry the OS error injected "
                   "at %s" % (k, out.exc, site), i)
    # (b) the file decodes to the old or the new contents
    try:
        actual = world.observe()
    except DecodeError as e:
        world.fail_hard(owners, "ioerror-file-undecodable",
                   "after %s %s failed at %s the file does not decode: %s"
                   % (k, _brief(op), site, e), i)
    on_disk = match_state(actual, states)
    if on_disk is not None and k in REWRITES:
        # a rewrite stages everything in a temp file: what the primary file
        # holds now is what the failed operation amounted to
        if on_disk is states[0]:
            world.control_plan[i] = ("drop",)
        elif on_disk is states[-1]:
            world.control_plan[i] = ("keep",)
    if on_disk is None:
        world.fail_hard(owners, "ioerror-file-neither-old-nor-new",
                   "after %s %s failed at %s the file holds %d points: %s"
                   % (k, _brief(op), site, len(actual),
                      describe(actual, states)), i)
    # temp files must not stay behind once the call has raised (C15 clause;
    # reported by the C15/C13 owners)
    post_listing = world.disk.listing()
    if post_listing != ctx["pre_listing"]:
        new = sorted(set(post_listing) - set(ctx["pre_listing"]))
        if not (f.fired[0].startswith("unlink")):
            world.fail_hard({"C15", "C13"}, "files-left-behind-after-ioerror",
                       "%s failed at %s and left %r behind"
                       % (k, site, [world.disk.role(p) for p in new]), i)
    world.nontrivial.add((k, f.fired, f.mode,
                          len(ctx["pre_model"].points)))
    if out.kind == "ret" and k not in READS:
        states = [world.model]
    # (c) continue under the admissible-state-set model
    if k == "reopen" and out.kind == "exc":
        s = match_state(actual, states)
        states = [s]
    if len(states) == 1:
        if out.kind == "ret" and k not in READS:
            world.control_plan[i] = ("keep",)
        elif states[0] is ctx["pre_model"] or \
                states[0].same_state(ctx["pre_model"]):
            world.control_plan[i] = ("drop",)
        world.model = states[0]
        world.admissible = None
        if k in ("reopen", "close") and out.kind == "exc":
            # a failed open/close leaves no usable object: boot again
            world.db = None
            world.disk.begin_op(i)
            world.disk.armed = {}
            o2 = world.execute(i, {"op": "reopen", "how": "abandon"})
            world.disk.end_op()
            if world.mode in ("w", "w+"):
                world.model.points = []  # that boot truncates, as it should
            if o2.kind != "ret":
                world.fail_hard(owners, "reopen-after-ioerror",
                           "cannot reopen after failed %s: %r"
                           % (k, o2.exc), i)
        return
    world.admissible = []
    for n, st in enumerate(states):
        c = st.copy()
        # what the failed operation amounted to in this member
        if n == 0:
            c.lineage = ("drop",)
        elif n == len(states) - 1:
            c.lineage = ("keep",)
        else:
            c.lineage = ("prefix", "x",
                         len(st.points) - len(ctx["pre_model"].points))
        world.admissible.append(c)
    world.io_fault_op = i
    world.probe("admissible-set-opened")


def judge_degraded(world, ctx):
    """After an I/O error: every answer of the live object must agree with
    one admissible state (monotonically), or the call raises."""
    i, op, k, out = ctx["i"], ctx["op"], ctx["k"], ctx["out"]
    owners = {"C13"}
    world.evals += 1
    members = world.admissible
    # world.expect() has already advanced world.model, which we ignore here:
    # recompute per member.
    saved_model = world.model
    nxt = []
    matched = []
    for s in members:
        s2 = s.copy()
        world.model = s2
        exp = world.expect_only(op, ctx)
        if out.kind == "exc":
            # may or may not have taken effect
            nxt.append(s)
            if not s2.same_state(s):
                nxt.append(s2)
            continue
        ok = True
        if exp[0] == "ret":
            ok = world.degraded_match(k, op, out.value, exp[1])
        elif exp[0] == "raises":
            ok = False
        if ok:
            matched.append(s2)
    world.model = saved_model
    if out.kind == "exc":
        world.count("degraded-op-raised")
        uniq = []
        for s in nxt:
            if not any(s.same_state(u) for u in uniq):
                uniq.append(s)
        if len(uniq) > 8:
            world.count("admissible-overflow")
            from .world import Foreign
            raise Foreign({"-"}, "admissible-overflow", "", i)
        world.admissible = uniq
        _resolve_lineage(world, uniq)
        return
    if not matched:
        world.fail_hard(owners, "wrong-answer-after-ioerror",
                   "%s %s returned %r, which agrees with none of the %d "
                   "admissible states (sizes %r)"
                   % (k, _brief(op), _short(out.value), len(members),
                      [len(s.points) for s in members]), i)
    uniq = []
    for s in matched:
        if not any(s.same_state(u) for u in uniq):
            uniq.append(s)
    world.admissible = uniq
    _resolve_lineage(world, uniq)
    if k == "reopen":
        # (d) collapse to what the file holds
        try:
            actual = world.observe()
        except DecodeError as e:
            world.fail_hard(owners, "ioerror-file-undecodable-after-close",
                       "after close the file does not decode: %s" % e, i)
        s = match_state(actual, uniq)
        if s is None:
            world.fail_hard(owners, "ioerror-file-after-close",
                       "after close + reopen the file holds %d points, "
                       "admissible sizes %r: %s"
                       % (len(actual), [len(u.points) for u in uniq],
                          describe(actual, uniq)), i)
        world.model = s
        world.admissible = None
        _resolve_lineage(world, [s])
        world.probe("admissible-set-collapsed")
        return
    if len(uniq) == 1 and k in READS and k in ("all", "iter") and \
            op.get("m") is None and op.get("take") is None:
        pass


def _resolve_lineage(world, members):
    """Once every remaining admissible state descends from the same outcome
    of the failed operation, the fault-free control knows what to replay."""
    lin = {getattr(m, "lineage", None) for m in members}
    i = getattr(world, "io_fault_op", None)
    if i is not None and len(lin) == 1:
        one = next(iter(lin))
        if one is not None:
            world.control_plan[i] = one


def _short(v):
    s = repr(v)
    return s if len(s) < 200 else s[:200] + "..."
