"""Independent decoder of the TinyFlux CSV file format.

bytes -> text (configured encoding) -> csv rows (configured dialect) ->
documented row layout: time (naive ISO, UTC), measurement, then (prefixed tag
key, value)*, then (prefixed field key, value)*.  '_none' encodes None.
Must not import tinyflux.
"""

import csv
import datetime as _dt
import io
import re

from .model import MPoint

UTC = _dt.timezone.utc
_INT = re.compile(r"^-?[0-9]+$")


class DecodeError(Exception):
    pass


def decode_row(row):
    if len(row) < 2 or len(row) % 2:
        raise DecodeError("row has %d cells" % len(row))
    try:
        t = _dt.datetime.fromisoformat(row[0])
    except ValueError as e:
        raise DecodeError("bad time cell %r" % (row[0],)) from e
    if t.tzinfo is not None:
        raise DecodeError("time cell carries an offset: %r" % (row[0],))
    t = t.replace(tzinfo=UTC)
    tags = {}
    fields = {}
    in_fields = False
    for i in range(2, len(row), 2):
        k, v = row[i], row[i + 1]
        if k.startswith("_tag_") or k.startswith("t_"):
            if in_fields:
                raise DecodeError("tag cell after field cell")
            key = k[5:] if k.startswith("_tag_") else k[2:]
            tags[key] = None if v == "_none" else v
        elif k.startswith("_field_") or k.startswith("f_"):
            in_fields = True
            key = k[7:] if k.startswith("_field_") else k[2:]
            if v == "_none":
                fields[key] = None
            elif _INT.match(v):
                fields[key] = int(v)
            else:
                try:
                    fields[key] = float(v)
                except ValueError as e:
                    raise DecodeError("bad field value %r" % (v,)) from e
        else:
            raise DecodeError("cell %r is neither tag nor field key" % (k,))
    return MPoint(t, row[1], tags, fields)


def decode_bytes(data, encoding, dialect_kwargs, lenient_tail=False):
    """Decode a whole database file.  With lenient_tail a torn last row
    (rows still sitting in a user-space buffer) is tolerated and dropped."""
    try:
        text = data.decode(encoding)
    except UnicodeDecodeError as e:
        if not lenient_tail:
            raise DecodeError("not valid %s: %s" % (encoding, e)) from e
        text = data.decode(encoding, errors="ignore")
    try:
        rows = list(csv.reader(io.StringIO(text, newline=""),
                               **dialect_kwargs))
    except csv.Error as e:
        raise DecodeError("csv: %s" % e) from e
    out = []
    for n, row in enumerate(rows):
        try:
            out.append(decode_row(row))
        except DecodeError:
            if lenient_tail and n == len(rows) - 1:
                break
            raise
    if lenient_tail and out:
        term = dialect_kwargs.get("lineterminator", "\r\n")
        if not text.endswith(term):
            out.pop()
    return out
