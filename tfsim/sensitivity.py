"""Self-test: sensitivity.  Every seeded change under /verif/seeded is applied
to a scratch worktree of /repo (outside /repo and /verif), the pinned unit
tests must still pass on it, and the check(s) recorded in its meta.json as
`detected_by` (default: the check of its property) must report a violation
within the quick budget.  The scratch worktree is removed afterwards."""

import json
import os
import shutil
import subprocess
import sys
import tempfile
import time

HERE = os.path.dirname(os.path.dirname(os.path.abspath(__file__)))


def sh(cmd, **kw):
    return subprocess.run(cmd, shell=True, capture_output=True, text=True,
                          **kw)


def main(tier):
    seeded = os.path.join(HERE, "seeded")
    names = sorted(d for d in os.listdir(seeded)
                   if os.path.isfile(os.path.join(seeded, d, "patch.diff")))
    if tier == "quick":
        names = names[::5]
    wt = tempfile.mkdtemp(prefix="tfsim-sens-")
    os.rmdir(wt)
    r = sh("git -C /repo worktree add -q --detach %s HEAD" % wt)
    if r.returncode:
        print("HARNESS-ERROR cannot create worktree: %s" % r.stderr)
        return 2
    evdir = tempfile.mkdtemp(prefix="tfsim-sens-ev-")
    missed = []
    t0 = time.time()
    try:
        for name in names:
            d = os.path.join(seeded, name)
            meta = json.load(open(os.path.join(d, "meta.json")))
            if meta.get("out_of_domain"):
                print("sensitivity %s: outside the properties' stated domain "
                      "(skipped): %s" % (name, meta.get("note", "")[:120]))
                continue
            if meta.get("neutralised_by"):
                print("sensitivity %s: harmless on the current tree (skipped)"
                      ": %s" % (name, meta["neutralised_by"][:160]))
                continue
            import re as _re
            checks = meta.get("detected_by") or [
                _re.search(r"C\d\d", meta["property"]).group(0)]
            sh("git -C %s checkout -- ." % wt)
            r = sh("git -C %s apply %s/patch.diff" % (wt, d))
            if r.returncode:
                print("sensitivity %s: patch does not apply to the current "
                      "tree (skipped): %s" % (name, r.stderr.strip()[:200]))
                continue
            t = sh("cd %s && /venv/bin/python -m pytest -q -p "
                   "no:cacheprovider tests 2>&1 | tail -1" % wt)
            tests_ok = t.stdout.strip().startswith("149 passed")
            caught = []
            for p in checks:
                env = dict(os.environ, VERIF_REPO=wt,
                           VERIF_EVIDENCE_DIR=evdir)
                c = subprocess.run(
                    [sys.executable, "-m", "tfsim.cli", "check",
                     "--property", p, "--tier", "quick"],
                    cwd=HERE, env=env, capture_output=True, text=True,
                    timeout=1800)
                if c.returncode == 1 and "VIOLATION property=%s" % p in \
                        c.stdout:
                    caught.append(p)
                    break
            print("sensitivity %s: unit tests %s, caught by %s"
                  % (name, "pass" if tests_ok else "FAIL (%s)" %
                     t.stdout.strip(), caught or "NOBODY (tried %s)"
                     % checks))
            sys.stdout.flush()
            if not caught and tests_ok and meta.get("probabilistic"):
                print("sensitivity %s: seed-dependent at the quick tier (see "
                      "its meta.json), not counted as a miss" % name)
                continue
            if not caught or not tests_ok:
                missed.append(name)
    finally:
        sh("git -C /repo worktree remove --force %s" % wt)
        shutil.rmtree(evdir, ignore_errors=True)
    print("sensitivity: %d seeded changes, %d not caught, %.0fs"
          % (len(names), len(missed), time.time() - t0))
    alarms = negative_controls(tier)
    return 1 if missed or alarms else 0


def negative_controls(tier):
    """Behaviour-preserving refactorings (/verif/controls): every check must
    stay silent on them."""
    base = os.path.join(HERE, "controls")
    if not os.path.isdir(base):
        return 0
    names = sorted(os.listdir(base))
    props = ["C01", "C02", "C03", "C04", "C05", "C06", "C07", "C08", "C10",
             "C11", "C12", "C13", "C14", "C15", "C16"]
    if tier == "quick":
        names = names[::6]
        props = ["C04", "C06", "C12", "C13", "C15", "C16"]
    wt = tempfile.mkdtemp(prefix="tfsim-ctl-")
    os.rmdir(wt)
    if sh("git -C /repo worktree add -q --detach %s HEAD" % wt).returncode:
        print("HARNESS-ERROR cannot create worktree")
        return 1
    evdir = tempfile.mkdtemp(prefix="tfsim-ctl-ev-")
    alarms = 0
    try:
        for name in names:
            d = os.path.join(base, name)
            sh("git -C %s checkout -- ." % wt)
            if sh("git -C %s apply %s/patch.diff" % (wt, d)).returncode:
                print("control %s: patch does not apply (skipped)" % name)
                continue
            loud = []
            for p in props:
                env = dict(os.environ, VERIF_REPO=wt,
                           VERIF_EVIDENCE_DIR=evdir, VERIF_RUNS_DIV="2")
                c = subprocess.run(
                    [sys.executable, "-m", "tfsim.cli", "check",
                     "--property", p, "--tier", "quick"],
                    cwd=HERE, env=env, capture_output=True, text=True,
                    timeout=1800)
                if c.returncode != 0:
                    loud.append((p, c.returncode))
            print("control %s: %s" % (name, "silent" if not loud else
                                      "ALARM %r" % (loud,)))
            sys.stdout.flush()
            alarms += len(loud)
    finally:
        sh("git -C /repo worktree remove --force %s" % wt)
        shutil.rmtree(evdir, ignore_errors=True)
    print("negative controls: %d refactorings, %d alarms" % (len(names),
                                                            alarms))
    return alarms
