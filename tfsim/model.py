"""Reference model of a TinyFlux database.

A list of points in storage (insertion) order plus an independent query
evaluator.  Semantics are implemented from the documentation and docstrings,
not from the code.  This module must not import tinyflux.
"""

import datetime as _dt
import operator
import re

from . import catalog
from .catalog import UTC, time_from_json, to_instant

_OPS = {
    "==": operator.eq, "!=": operator.ne, "<": operator.lt,
    "<=": operator.le, ">": operator.gt, ">=": operator.ge,
}


class MPoint:
    __slots__ = ("t", "m", "tags", "fields", "uid", "touched")

    def __init__(self, t, m, tags, fields, uid=0):
        self.t = t  # aware UTC datetime
        self.m = m
        self.tags = tags
        self.fields = fields
        self.uid = uid
        self.touched = False

    def copy(self):
        p = MPoint(self.t, self.m, dict(self.tags), dict(self.fields),
                   self.uid)
        p.touched = self.touched
        return p

    def same(self, o):
        return (self.t == o.t and self.m == o.m and self.tags == o.tags
                and self.fields == o.fields)

    def key(self):
        return (self.t, self.m, self.tags, self.fields)

    def __repr__(self):
        return "MP(%s, %r, %r, %r)" % (self.t.isoformat(), self.m, self.tags,
                                       self.fields)


# ------------------------------------------------------------ query truth
def _resolve(q, p):
    """Value addressed by the leaf on point p; raises if it does not exist."""
    attr = q["attr"]
    if attr == "time":
        v = p.t
    elif attr == "measurement":
        v = p.m
    elif attr == "tag":
        v = dict(p.tags)
        for name in q.get("premaps", ()):
            v = catalog.PREMAPS[name](v)
        if "key" in q:
            v = v[q["key"]]
    else:
        v = dict(p.fields)
        for name in q.get("premaps", ()):
            v = catalog.PREMAPS[name](v)
        if "key" in q:
            v = v[q["key"]]
    for name in q.get("maps", ()):
        v = catalog.MAPS[name](v)
    return v


def eval_query(q, p):
    k = q["k"]
    if k == "and":
        return eval_query(q["a"], p) and eval_query(q["b"], p)
    if k == "or":
        return eval_query(q["a"], p) or eval_query(q["b"], p)
    if k == "not":
        return not eval_query(q["q"], p)
    if k == "noop":
        return True
    try:
        v = _resolve(q, p)
    except Exception:
        return False
    if k == "exists":
        return True
    if k == "cmp":
        rhs = q["rhs"]
        if q["attr"] == "time" and isinstance(rhs, dict):
            rhs = time_from_json(rhs)
        try:
            return bool(_OPS[q["op"]](v, rhs))
        except Exception:
            return False
    if k == "re":
        if not isinstance(v, str):
            return False
        fn = re.match if q["fn"] == "matches" else re.search
        return fn(q["pat"], v, q.get("flags", 0)) is not None
    if k == "test":
        return bool(catalog.TESTS[q["f"]](v, *q.get("args", ())))
    raise ValueError("bad query node %r" % (k,))


def query_leaves(q):
    k = q["k"]
    if k in ("and", "or"):
        yield from query_leaves(q["a"])
        yield from query_leaves(q["b"])
    elif k == "not":
        yield from query_leaves(q["q"])
    else:
        yield q


# ------------------------------------------------------------ update
def apply_update_spec(spec, p):
    """Return the updated copy of model point p (documented semantics)."""
    n = p.copy()
    if "time" in spec:
        s = spec["time"]
        if "static" in s:
            n.t = to_instant(time_from_json(s["static"]))
        else:
            n.t = to_instant(catalog.make_time_updater(s)(p.t))
    if "measurement" in spec:
        s = spec["measurement"]
        if "static" in s:
            n.m = s["static"]
        else:
            n.m = catalog.make_measurement_updater(s)(p.m)
    if "tags" in spec:
        s = spec["tags"]
        if "static" in s:
            n.tags.update(s["static"])
        else:
            n.tags.update(catalog.make_tags_updater(s)(dict(p.tags)))
    if "fields" in spec:
        s = spec["fields"]
        if "static" in s:
            n.fields.update(s["static"])
        else:
            n.fields.update(catalog.make_fields_updater(s)(dict(p.fields)))
    if "unset_tags" in spec:
        u = spec["unset_tags"]
        for k in ([u] if isinstance(u, str) else u):
            n.tags.pop(k, None)
    if "unset_fields" in spec:
        u = spec["unset_fields"]
        for k in ([u] if isinstance(u, str) else u):
            n.fields.pop(k, None)
    return n


# ------------------------------------------------------------ the model
def csv_number(v):
    """CSV storage writes numbers as floats (an int only when a float cannot
    represent it): what comes back, and what update callables see, is the
    float.  Equal under == either way; this only matters for arithmetic."""
    if isinstance(v, int) and not isinstance(v, bool):
        try:
            f = float(v)
        except OverflowError:
            return v
        return f if f == v else v
    return v


class Model:
    def __init__(self, csv_numbers=False):
        self.points = []
        self.next_uid = 1
        self.csv_numbers = csv_numbers

    def copy(self):
        m = Model(self.csv_numbers)
        m.points = [p.copy() for p in self.points]
        m.next_uid = self.next_uid
        m.lineage = getattr(self, "lineage", None)
        return m

    def same_state(self, other):
        return len(self.points) == len(other.points) and all(
            a.same(b) for a, b in zip(self.points, other.points))

    # -- selection ------------------------------------------------------
    def select_idx(self, q, m=None):
        out = []
        for i, p in enumerate(self.points):
            if m is not None and p.m != m:
                continue
            if q is None or eval_query(q, p):
                out.append(i)
        return out

    def of(self, m=None):
        return [p for p in self.points if m is None or p.m == m]

    # -- writes ---------------------------------------------------------
    def insert(self, pt, m_arg, now):
        """pt: point JSON.  Returns the model point appended."""
        if pt.get("time") is None:
            t = now
        else:
            t = to_instant(time_from_json(pt["time"]))
        m = pt.get("m")
        if m is None:
            m = "_default"
        if m_arg is not None:
            m = m_arg
        fields = dict(pt.get("fields") or {})
        if self.csv_numbers:
            fields = {k: csv_number(v) for k, v in fields.items()}
        p = MPoint(t, m, dict(pt.get("tags") or {}), fields, self.next_uid)
        self.next_uid += 1
        self.points.append(p)
        return p

    def remove(self, q, m=None):
        idx = set(self.select_idx(q, m))
        self.points = [p for i, p in enumerate(self.points) if i not in idx]
        return len(idx)

    def update(self, q, m, spec):
        count = 0
        for i in self.select_idx(q, m):
            old = self.points[i]
            new = apply_update_spec(spec, old)
            old.touched = True
            if not new.same(old):
                new.touched = True
                if self.csv_numbers:
                    new.fields = {k: csv_number(v)
                                  for k, v in new.fields.items()}
                self.points[i] = new
                count += 1
        return count

    # -- reads ----------------------------------------------------------
    def search(self, q, m=None, sorted_=True):
        pts = [self.points[i] for i in self.select_idx(q, m)]
        if sorted_:
            pts = sorted(pts, key=lambda p: p.t)  # stable
        return pts

    def all(self, m=None, sorted_=True):
        pts = self.of(m)
        if sorted_:
            pts = sorted(pts, key=lambda p: p.t)
        return pts

    def select(self, keys, q, m=None):
        out = []
        for i in self.select_idx(q, m):
            p = self.points[i]
            row = []
            for k in keys:
                if k == "time":
                    row.append(p.t)
                elif k == "measurement":
                    row.append(p.m)
                elif k.startswith("tags."):
                    row.append(p.tags.get(k[5:]))
                else:
                    row.append(p.fields.get(k[7:]))
            out.append(row[0] if len(keys) == 1 else tuple(row))
        return out

    def get_measurements(self):
        return sorted({p.m for p in self.points})

    def get_tag_keys(self, m=None):
        return sorted({k for p in self.of(m) for k in p.tags})

    def get_field_keys(self, m=None):
        return sorted({k for p in self.of(m) for k in p.fields})

    def get_tag_values(self, keys, m=None):
        rst = {k: set() for k in keys}
        for p in self.of(m):
            for k, v in p.tags.items():
                if keys and k not in rst:
                    continue
                rst.setdefault(k, set()).add(v)
        return {k: sorted(v, key=lambda x: (x is None, x))
                for k, v in rst.items()}

    def get_field_values(self, key, m=None):
        return [p.fields[key] for p in self.of(m) if key in p.fields]

    def get_timestamps(self, m=None):
        return [p.t for p in self.of(m)]

    def latest(self):
        return max((p.t for p in self.points), default=None)
