"""Seams: rebinding of the module globals through which tinyflux reaches the
operating system and the clock.  No source hook in /repo is needed.

Every global of ``tinyflux.storages`` / ``tinyflux.database`` /
``tinyflux.point`` that *is* one of the real objects below is replaced by its
simulated counterpart, so ``from os import replace`` in a repaired tinyflux is
caught as well as ``os.replace``.
"""

import builtins
import datetime as _dt
import io
import os as _os
import pathlib as _pathlib
import posixpath
import shutil as _shutil
import sys
import tempfile as _tempfile
import time as _time

from .simdisk import SeamEscape, SimDisk, TMP_DIR

REAL_DATETIME = _dt.datetime


# ---------------------------------------------------------------- os proxy
class PathProxy:
    def __init__(self, disk):
        self._disk = disk

    def exists(self, p):
        return self._disk.exists(self._disk._p(p))

    lexists = exists

    def isfile(self, p):
        return self._disk._p(p) in self._disk.files

    def isdir(self, p):
        return self._disk._p(p) in self._disk.dirs

    def getsize(self, p):
        p = self._disk._p(p)
        if p not in self._disk.files:
            from .simdisk import sim_oserror
            import errno
            raise sim_oserror(errno.ENOENT, "No such file or directory", p)
        return len(self._disk.files[p].data)

    def abspath(self, p):
        return posixpath.normpath(_os.fspath(p))

    realpath = abspath

    def __getattr__(self, name):
        if name in ("dirname", "basename", "join", "split", "splitext",
                    "normpath", "isabs", "sep", "expanduser", "commonpath"):
            return getattr(posixpath, name)
        raise SeamEscape("os.path.%s" % name)


class StatResult:
    def __init__(self, inode):
        self.st_size = len(inode.data)
        self.st_mode = 0o100000 | inode.mode
        self.st_ino = inode.ino
        self.st_dev = 1
        self.st_nlink = 1
        self.st_uid = 0
        self.st_gid = 0
        self.st_mtime = 0.0
        self.st_atime = 0.0
        self.st_ctime = 0.0


class OsProxy:
    """Stands in for the ``os`` module inside tinyflux."""

    SEEK_SET = 0
    SEEK_CUR = 1
    SEEK_END = 2
    sep = "/"
    linesep = "\n"
    name = "posix"
    curdir = "."
    O_RDONLY = _os.O_RDONLY
    O_RDWR = _os.O_RDWR
    O_WRONLY = _os.O_WRONLY
    O_CREAT = _os.O_CREAT
    O_TRUNC = _os.O_TRUNC
    O_APPEND = _os.O_APPEND
    O_EXCL = _os.O_EXCL
    PathLike = _os.PathLike
    error = OSError

    def __init__(self, disk):
        self._disk = disk
        self.path = PathProxy(disk)
        self.environ = _os.environ

    def fspath(self, p):
        return _os.fspath(p)

    def fsencode(self, p):
        return _os.fsencode(p)

    def fsdecode(self, p):
        return _os.fsdecode(p)

    def getpid(self):
        return 4242

    def getcwd(self):
        from .simdisk import DB_DIR
        return DB_DIR

    def fsync(self, fd):
        return self._disk.fsync(fd)

    fdatasync = fsync

    def remove(self, p, **kw):
        return self._disk.unlink(p)

    unlink = remove

    def rename(self, a, b, **kw):
        return self._disk.rename(a, b)

    replace = rename

    def makedirs(self, p, mode=0o777, exist_ok=False):
        return self._disk.makedirs(p, mode, exist_ok)

    def mkdir(self, p, mode=0o777):
        return self._disk.makedirs(p, mode, False)

    def chmod(self, p, mode, **kw):
        return self._disk.chmod(p, mode)

    def stat(self, p, **kw):
        import errno
        from .simdisk import sim_oserror
        if isinstance(p, int):
            raw = self._disk.fds.get(p)
            if raw is None:
                raise sim_oserror(errno.EBADF, "Bad file descriptor")
            return StatResult(raw.inode)
        p = self._disk._p(p)
        if p in self._disk.files:
            return StatResult(self._disk.files[p])
        raise sim_oserror(errno.ENOENT, "No such file or directory", p)

    lstat = stat
    fstat = stat

    def listdir(self, p="."):
        p = self._disk._p(p)
        return sorted(posixpath.basename(f) for f in self._disk.files
                      if posixpath.dirname(f) == p)

    def fdopen(self, fd, *a, **kw):
        return self._disk.fdopen(fd, *a, **kw)

    def close(self, fd):
        raw = self._disk.fds.pop(fd, None)
        if raw is not None:
            raw.close()

    def access(self, p, mode, **kw):
        return self._disk.exists(self._disk._p(p))

    def open(self, p, flags, mode=0o777, **kw):
        """Low-level open: directories (for fsync of the directory) and
        plain files."""
        import errno
        from .simdisk import SimRaw, sim_oserror
        d = self._disk
        p = d._p(p)
        if p in d.dirs:
            fd = d.next_fd
            d.next_fd += 1
            d.fds[fd] = _DirFd(p, fd)
            d.step("open", p, 0, False)
            return fd
        inode = d.files.get(p)
        creating = bool(flags & _os.O_CREAT)
        d.step("open", p, 0, (inode is None and creating) or (
            inode is not None and bool(flags & _os.O_TRUNC)
            and len(inode.data) > 0))
        if inode is None:
            if not creating:
                raise sim_oserror(errno.ENOENT, "No such file or directory",
                                  p)
            d._check_parent(p)
            inode = d._new_inode(mode & 0o777)
            d.files[p] = inode
        elif flags & _os.O_EXCL and creating:
            raise sim_oserror(errno.EEXIST, "File exists", p)
        if flags & _os.O_TRUNC:
            del inode.data[:]
        acc = flags & (_os.O_RDONLY | _os.O_WRONLY | _os.O_RDWR)
        fd = d.next_fd
        d.next_fd += 1
        raw = SimRaw(d, p, inode, acc != _os.O_WRONLY, acc != _os.O_RDONLY,
                     bool(flags & _os.O_APPEND), fd)
        d.fds[fd] = raw
        d.live_raws.append(raw)
        return fd

    def write(self, fd, data):
        return self._disk.fds[fd].write(data)

    def read(self, fd, n):
        raw = self._disk.fds[fd]
        buf = bytearray(n)
        k = raw.readinto(buf)
        return bytes(buf[:k])

    def lseek(self, fd, pos, how):
        return self._disk.fds[fd].seek(pos, how)

    def ftruncate(self, fd, n):
        return self._disk.fds[fd].truncate(n)

    def truncate(self, p, n):
        if isinstance(p, int):
            return self.ftruncate(p, n)
        d = self._disk
        p = d._p(p)
        import errno
        from .simdisk import sim_oserror
        if p not in d.files:
            raise sim_oserror(errno.ENOENT, "No such file or directory", p)
        data = d.files[p].data
        d.step("truncate", p, 0, n != len(data))
        if n < len(data):
            del data[n:]
        else:
            data.extend(b"\0" * (n - len(data)))

    def sync(self):
        return None

    def scandir(self, p="."):
        raise SeamEscape("os.scandir")

    def urandom(self, n):
        # deterministic: temp names etc. must not differ between replays
        self._urandom_ctr = getattr(self, "_urandom_ctr", 0) + 1
        import hashlib
        out = b""
        while len(out) < n:
            out += hashlib.sha256(b"tfsim%d-%d" % (self._urandom_ctr,
                                                     len(out))).digest()
        return out[:n]

    def __getattr__(self, name):
        # constants (open flags, access modes, separators ...) and a few
        # pure functions are the real ones; anything that touches the file
        # system and is not modelled is a seam escape
        if not hasattr(_os, name):
            # e.g. getattr(os, "O_BINARY", 0) on POSIX
            raise AttributeError("module 'os' has no attribute %r" % name)
        if hasattr(_os, name):
            val = getattr(_os, name)
            if isinstance(val, (int, str, bytes, type(None))) and (
                    name.isupper() or name in ("devnull", "pathsep",
                                               "altsep", "extsep", "pardir",
                                               "defpath")):
                return val
            if name in ("strerror", "getuid", "getgid", "geteuid",
                        "getegid", "cpu_count", "umask", "getppid"):
                return val
        raise SeamEscape("os.%s" % name)


class _DirFd:
    """A descriptor opened on a directory (only fsync / close make sense)."""

    def __init__(self, path, fd):
        self.path = path
        self.fd = fd
        self.dead = False
        self.inode = None

    def close(self):
        pass


class ShutilProxy:
    Error = _shutil.Error
    SameFileError = _shutil.SameFileError

    def __init__(self, disk):
        self._disk = disk

    def copy(self, src, dst, **kw):
        return self._disk.copyfile(src, dst, with_mode=True)

    copy2 = copy

    def copyfile(self, src, dst, **kw):
        return self._disk.copyfile(src, dst, with_mode=False)

    def copymode(self, src, dst, **kw):
        d = self._disk
        s = d.files.get(d._p(src))
        if s is not None:
            d.chmod(dst, s.mode)

    def copystat(self, src, dst, **kw):
        return self.copymode(src, dst)

    def move(self, src, dst, **kw):
        d = self._disk
        try:
            d.rename(src, dst)
        except OSError as e:
            import errno
            if e.errno != errno.EXDEV:
                raise
            d.copyfile(src, dst, with_mode=True)
            d.unlink(src)
        return dst

    def copyfileobj(self, fsrc, fdst, length=0):
        return _shutil.copyfileobj(fsrc, fdst, length or 64 * 1024)

    def __getattr__(self, name):
        raise SeamEscape("shutil.%s" % name)


class TempfileProxy:
    def __init__(self, disk):
        self._disk = disk
        self.tempdir = None

    def NamedTemporaryFile(self, *a, **kw):
        return self._disk.named_temporary_file(*a, **kw)

    def mkstemp(self, *a, **kw):
        return self._disk.mkstemp(*a, **kw)

    def gettempdir(self):
        return TMP_DIR

    def mkdtemp(self, suffix=None, prefix=None, dir=None):
        d = self._disk
        name = d._tmp_name(prefix, suffix, dir)
        d.step("mktemp", name, 0, True)
        d.dirs.add(name)
        return name

    def TemporaryFile(self, *a, **kw):
        kw["delete"] = True
        return self._disk.named_temporary_file(*a, **kw)

    def __getattr__(self, name):
        raise SeamEscape("tempfile.%s" % name)


class IoProxy:
    """Stands in for the ``io`` module: only open() touches the disk."""

    def __init__(self, disk):
        self._disk = disk

    def open(self, *a, **kw):
        return self._disk.open(*a, **kw)

    def __getattr__(self, name):
        return getattr(io, name)


def make_sim_path(disk):
    """pathlib.Path stand-in whose file-system methods use the simulated
    disk (pure path manipulation is inherited)."""
    import pathlib

    class SimPath(pathlib.PurePosixPath):
        def _s(self):
            return str(self)

        def exists(self):
            return disk.exists(disk._p(self._s()))

        def is_file(self):
            return disk._p(self._s()) in disk.files

        def is_dir(self):
            return disk._p(self._s()) in disk.dirs

        def unlink(self, missing_ok=False):
            return disk.unlink(self._s(), missing_ok=missing_ok)

        def rename(self, target):
            disk.rename(self._s(), _os.fspath(target))
            return type(self)(_os.fspath(target))

        replace = rename

        def open(self, mode="r", buffering=-1, encoding=None, errors=None,
                 newline=None):
            return disk.open(self._s(), mode, buffering, encoding, errors,
                             newline)

        def touch(self, mode=0o666, exist_ok=True):
            with disk.open(self._s(), "a"):
                pass

        def stat(self):
            return OsProxy(disk).stat(self._s())

        def mkdir(self, mode=0o777, parents=False, exist_ok=False):
            return disk.makedirs(self._s(), mode, exist_ok)

        def read_bytes(self):
            with disk.open(self._s(), "rb") as f:
                return f.read()

        def write_bytes(self, data):
            with disk.open(self._s(), "wb") as f:
                return f.write(data)

        def read_text(self, encoding=None, errors=None):
            with disk.open(self._s(), "r", encoding=encoding,
                           errors=errors) as f:
                return f.read()

        def write_text(self, data, encoding=None, errors=None, newline=None):
            with disk.open(self._s(), "w", encoding=encoding, errors=errors,
                           newline=newline) as f:
                return f.write(data)

        def resolve(self, strict=False):
            return self

        def absolute(self):
            return self

        def chmod(self, mode):
            return disk.chmod(self._s(), mode)

    SimPath.__name__ = "Path"
    return SimPath


# ---------------------------------------------------------------- clock
class SimClock:
    """Virtual wall clock: an aware UTC datetime moved only by the scheduler."""

    def __init__(self):
        self.now = REAL_DATETIME(2022, 6, 1, 12, 0, 0, tzinfo=_dt.timezone.utc)
        self.covered_us = 0
        self.reads = 0

    def move(self, delta_us):
        self.now = self.now + _dt.timedelta(microseconds=delta_us)
        self.covered_us += abs(delta_us)


class _SimDTMeta(type(REAL_DATETIME)):
    def __instancecheck__(cls, inst):
        return isinstance(inst, REAL_DATETIME)

    def __subclasscheck__(cls, sub):
        return issubclass(sub, REAL_DATETIME)


def make_sim_datetime(clock):
    class SimDateTime(REAL_DATETIME, metaclass=_SimDTMeta):
        @classmethod
        def now(cls, tz=None):
            clock.reads += 1
            n = clock.now
            if tz is None:
                return n.astimezone().replace(tzinfo=None)
            return n.astimezone(tz)

        @classmethod
        def utcnow(cls):
            clock.reads += 1
            return clock.now.replace(tzinfo=None)

        @classmethod
        def today(cls):
            return cls.now()

        @classmethod
        def fromisoformat(cls, s):
            return REAL_DATETIME.fromisoformat(s)

        @classmethod
        def fromtimestamp(cls, t, tz=None):
            return REAL_DATETIME.fromtimestamp(t, tz)

        @classmethod
        def strptime(cls, s, f):
            return REAL_DATETIME.strptime(s, f)

        @classmethod
        def combine(cls, *a, **kw):
            return REAL_DATETIME.combine(*a, **kw)

        def __new__(cls, *a, **kw):
            return REAL_DATETIME(*a, **kw)

    SimDateTime.__name__ = "datetime"
    SimDateTime.min = REAL_DATETIME.min
    SimDateTime.max = REAL_DATETIME.max
    return SimDateTime


class TimeProxy:
    """Stands in for the ``time`` module if tinyflux ever imports it."""

    def __init__(self, clock):
        self._clock = clock

    def time(self):
        self._clock.reads += 1
        return self._clock.now.timestamp()

    def time_ns(self):
        return int(self.time() * 1e9)

    def monotonic(self):
        return self.time()

    perf_counter = monotonic

    def sleep(self, s):
        self._clock.move(int(s * 1e6))

    def __getattr__(self, name):
        if name in ("timezone", "altzone", "tzname", "daylight", "localtime",
                    "gmtime", "mktime", "strftime", "struct_time"):
            return getattr(_time, name)
        raise SeamEscape("time.%s" % name)


# ---------------------------------------------------------------- install
_TF_MODULES = ("tinyflux.storages", "tinyflux.database", "tinyflux.point",
               "tinyflux.index", "tinyflux.measurement", "tinyflux.queries",
               "tinyflux.utils")


_STACK = []  # active (disk, clock) environments, innermost last
_SLOTS = None  # [(module dict, name, real value or None, key)]
_CACHES = []  # cache_clear callables of memoised functions in tinyflux


def _find_caches():
    """Process-global memoisation inside the code under test would make a
    run depend on the runs before it: every cache is emptied per run."""
    del _CACHES[:]
    seen = set()

    def look(obj):
        f = getattr(obj, "__func__", obj)
        cc = getattr(f, "cache_clear", None)
        if callable(cc) and id(f) not in seen:
            seen.add(id(f))
            _CACHES.append(cc)

    for modname in _TF_MODULES:
        mod = sys.modules.get(modname)
        if mod is None:
            continue
        for val in list(mod.__dict__.values()):
            look(val)
            if isinstance(val, type) and getattr(
                    val, "__module__", "").startswith("tinyflux"):
                for v2 in list(vars(val).values()):
                    look(v2)


def clear_caches():
    for cc in _CACHES:
        try:
            cc()
        except Exception:
            pass


def _discover():
    """Find, once, every global of the tinyflux modules that is one of the
    real OS / clock objects."""
    global _SLOTS
    slots = []
    by_identity = [
        (_os, "os"), (_shutil, "shutil"), (_tempfile, "tempfile"),
        (_time, "time"), (builtins.open, "open"), (io.open, "open"),
        (io, "io"), (_pathlib.Path, "Path"),
        (_tempfile.mkdtemp, "mkdtemp"),
        (_tempfile.TemporaryFile, "TemporaryFile"),
        (_os.truncate, "os.truncate"), (_os.open, "os.open"),
        (_shutil.copyfileobj, "shutil.copyfileobj"),
        (_tempfile.NamedTemporaryFile, "NamedTemporaryFile"),
        (_tempfile.mkstemp, "mkstemp"),
        (_tempfile.gettempdir, "gettempdir"),
        (_os.fsync, "os.fsync"), (_os.replace, "os.replace"),
        (_os.rename, "os.rename"), (_os.remove, "os.remove"),
        (_os.unlink, "os.unlink"), (_os.path, "os.path"),
        (_os.stat, "os.stat"), (_os.makedirs, "os.makedirs"),
        (_os.fdopen, "os.fdopen"), (_os.close, "os.close"),
        (_os.chmod, "os.chmod"),
        (_shutil.copy, "shutil.copy"), (_shutil.copy2, "shutil.copy2"),
        (_shutil.copyfile, "shutil.copyfile"), (_shutil.move, "shutil.move"),
        (_time.time, "time.time"),
    ]
    clock_mods = ("tinyflux.database", "tinyflux.point")
    for modname in _TF_MODULES:
        mod = sys.modules.get(modname)
        if mod is None:
            continue
        d = mod.__dict__
        for name in list(d):
            val = d[name]
            if val is REAL_DATETIME:
                if modname in clock_mods:
                    slots.append((d, name, val, "datetime"))
                continue
            if val is _dt and modname in clock_mods:
                raise SeamEscape("%s imports the datetime module as a whole"
                                 % modname)
            for real, key in by_identity:
                if val is real:
                    slots.append((d, name, val, key))
                    break
        # `open` is a builtin, not a module global: shadow it.
        if "open" not in d:
            slots.append((d, "open", None, "open"))
    _SLOTS = slots


def _activate(disk, clock):
    osp = OsProxy(disk)
    shp = ShutilProxy(disk)
    tfp = TempfileProxy(disk)
    tmp = TimeProxy(clock)
    table = {
        "os": osp, "shutil": shp, "tempfile": tfp, "time": tmp,
        "io": IoProxy(disk), "Path": make_sim_path(disk),
        "mkdtemp": tfp.mkdtemp, "TemporaryFile": tfp.TemporaryFile,
        "os.truncate": osp.truncate, "os.open": osp.open,
        "shutil.copyfileobj": shp.copyfileobj,
        "open": disk.open, "NamedTemporaryFile": disk.named_temporary_file,
        "mkstemp": disk.mkstemp, "gettempdir": tfp.gettempdir,
        "os.fsync": osp.fsync, "os.replace": osp.replace,
        "os.rename": osp.rename, "os.remove": osp.remove,
        "os.unlink": osp.unlink, "os.path": osp.path, "os.stat": osp.stat,
        "os.makedirs": osp.makedirs, "os.fdopen": osp.fdopen,
        "os.close": osp.close, "os.chmod": osp.chmod,
        "shutil.copy": shp.copy, "shutil.copy2": shp.copy2,
        "shutil.copyfile": shp.copyfile, "shutil.move": shp.move,
        "time.time": tmp.time, "datetime": make_sim_datetime(clock),
    }
    for d, name, _real, key in _SLOTS:
        d[name] = table[key]


def _deactivate():
    for d, name, real, _key in _SLOTS:
        if real is None:
            d.pop(name, None)
        else:
            d[name] = real


def reset_discovery():
    """Forget the discovered slots (after tinyflux has been re-imported)."""
    global _SLOTS
    if _SLOTS is not None and not _STACK:
        _deactivate()
    _SLOTS = None


class Seams:
    """Installs / removes the simulated world around the tinyflux modules.
    Installations nest (a twin world may run inside another world's run)."""

    def __init__(self):
        self.env = None

    def install(self, disk, clock):
        if _SLOTS is None:
            _discover()
            _find_caches()
        if not _STACK:
            clear_caches()
        self.env = (disk, clock)
        _STACK.append(self.env)
        _activate(disk, clock)

    def uninstall(self):
        if self.env is None:
            return
        if self.env in _STACK:
            _STACK.remove(self.env)
        self.env = None
        if _STACK:
            _activate(*_STACK[-1])
        else:
            _deactivate()


def set_tz(name):
    """Set the process time zone (part of the simulated environment)."""
    _os.environ["TZ"] = name
    _time.tzset()
