"""RealDisk: the SimDisk interface over a real directory (pass-through mode).

Same step structure (every raw call is a numbered step, same call-layer
steps), same fault addressing, but the bytes live in real files under a
scratch directory (tmpfs).  Used only by the self-tests that keep SimDisk
honest: the conformance diff and the real-process-death validation of C12.
"""

import errno
import io
import os
import posixpath
import shutil

from . import simdisk
from .simdisk import (DB_DIR, DB_PATH, ROOT, TMP_DIR, SimCrash, SimDisk,
                      SimText, sim_oserror)


class RealInode:
    def __init__(self, real):
        self.real = real
        st = os.stat(real)
        self.mode = st.st_mode & 0o777
        self.ino = st.st_ino

    @property
    def data(self):
        with open(self.real, "rb") as f:
            return f.read()


class _Files:
    """dict-like view path -> RealInode of the files under the root."""

    def __init__(self, disk):
        self.disk = disk

    def _all(self):
        out = {}
        for d in (DB_DIR, TMP_DIR):
            rd = self.disk.real(d)
            for name in sorted(os.listdir(rd)):
                out[d + "/" + name] = None
        return out

    def __contains__(self, p):
        return os.path.isfile(self.disk.real(p))

    def __iter__(self):
        return iter(self._all())

    def __getitem__(self, p):
        if p not in self:
            raise KeyError(p)
        return RealInode(self.disk.real(p))

    def get(self, p, default=None):
        return self[p] if p in self else default

    def __len__(self):
        return len(self._all())


class RealRaw(io.FileIO):
    """FileIO whose calls are steps of the owning disk."""

    def __init__(self, disk, simpath, real, mode):
        super().__init__(real, mode)
        self.name = simpath
        self.disk = disk
        self.path = simpath
        self.dead = False
        self.quiet = False
        self.fd = self.fileno()

    def _step(self, kind, nbytes, mutating):
        if self.quiet or self.dead:
            return None
        return self.disk.step(kind, self.path, nbytes, mutating)

    def readinto(self, b):
        self._step("read", len(b), False)
        return super().readinto(b)

    def write(self, b):
        if self.dead:
            return len(b)
        self._step("write", len(b), len(b) > 0)
        return super().write(b)

    def seek(self, offset, whence=0):
        self._step("lseek", 0, False)
        return super().seek(offset, whence)

    def tell(self):
        self._step("lseek", 0, False)
        return super().tell()

    def truncate(self, size=None):
        if size is None:
            size = super().tell()
        cur = os.fstat(self.fileno()).st_size
        self._step("truncate", 0, size != cur)
        return super().truncate(size)

    def close(self):
        if self.closed:
            return
        self._step("close", 0, False)
        self.disk.fds.pop(self.fd, None)
        super().close()

    def __del__(self):
        self.quiet = True
        try:
            super().__del__()
        except Exception:
            pass


class RealDisk(SimDisk):
    def __init__(self, rootdir, **kw):
        super().__init__(**kw)
        self.rootdir = rootdir
        for d in (DB_DIR, TMP_DIR):
            os.makedirs(self.real(d), exist_ok=True)
        self.files = _Files(self)
        self.exit_on_crash = False

    def real(self, simpath):
        assert simpath.startswith(ROOT), simpath
        return self.rootdir + simpath[len(ROOT):]

    # -- inspection ---------------------------------------------------------
    def peek(self, path=DB_PATH):
        try:
            with open(self.real(path), "rb") as f:
                return f.read()
        except FileNotFoundError:
            return None

    def poke(self, path, data):
        with open(self.real(path), "wb") as f:
            f.write(data)

    def listing(self):
        return tuple(sorted(p for p in self.files if p != DB_PATH))

    def exists(self, path):
        return os.path.exists(self.real(path))

    def kill(self):
        if self.exit_on_crash:
            os._exit(77)
        for r in self.live_raws:
            r.dead = True
        self.live_raws = []

    # -- namespace ------------------------------------------------------------
    def _mk_stack(self, path, inode, mode, buffering, encoding, errors,
                  newline, delete=False):
        m = mode.replace("t", "").replace("b", "")
        raw = RealRaw(self, path, self.real(path),
                      {"r": "rb", "r+": "rb+", "w": "wb", "w+": "wb+",
                       "a": "ab", "a+": "ab+", "x": "xb", "x+": "xb+"}[m])
        self.fds[raw.fd] = raw
        self.live_raws.append(raw)
        reading = m[0] == "r" or "+" in m
        writing = m[0] in "wax" or "+" in m
        bs = self.bufsize
        if reading and writing:
            buf = io.BufferedRandom(raw, bs)
        elif writing:
            buf = io.BufferedWriter(raw, bs)
        else:
            buf = io.BufferedReader(raw, bs)
        if "b" in mode:
            return buf
        enc = encoding or self.locale_encoding
        text = SimText(buf, encoding=enc, errors=errors, newline=newline)
        if self.text_chunk:
            text._CHUNK_SIZE = self.text_chunk
        text._sim_init(self, raw, path, mode, delete)
        return text

    def open(self, path, mode="r", buffering=-1, encoding=None, errors=None,
             newline=None, closefd=True, opener=None):
        path = self._p(path)
        m = mode.replace("t", "").replace("b", "")
        real = self.real(path)
        exists = os.path.isfile(real)
        will_change = (not exists and m[0] in "wax") or (
            exists and m[0] == "w" and os.path.getsize(real) > 0)
        self.step("open", path, 0, will_change)
        if os.path.isdir(real):
            raise sim_oserror(errno.EISDIR, "Is a directory", path)
        if not exists and m[0] == "r":
            raise sim_oserror(errno.ENOENT, "No such file or directory",
                              path)
        return self._mk_stack(path, None, mode, buffering, encoding, errors,
                              newline)

    def named_temporary_file(self, mode="w+b", buffering=-1, encoding=None,
                             newline=None, suffix=None, prefix=None,
                             dir=None, delete=True, *, errors=None,
                             delete_on_close=True):
        name = self._tmp_name(prefix, suffix, dir)
        self.step("mktemp", name, 0, True)
        fd = os.open(self.real(name), os.O_CREAT | os.O_EXCL | os.O_RDWR,
                     0o600)
        os.close(fd)
        m = mode.replace("w", "r") if "+" in mode else mode
        return self._mk_stack(name, None, m, buffering, encoding, errors,
                              newline, delete=bool(delete))

    def _tmp_name(self, prefix, suffix, dir):
        d = self._p(dir) if dir else TMP_DIR
        while True:
            name = "%s/%s%06d%s" % (d, prefix or "tmp", self.next_tmp,
                                    suffix or "")
            self.next_tmp += 1
            if not os.path.exists(self.real(name)):
                return name

    def unlink(self, path, missing_ok=False):
        path = self._p(path)
        real = self.real(path)
        self.step("unlink", path, 0, os.path.exists(real))
        try:
            os.unlink(real)
        except FileNotFoundError:
            if not missing_ok:
                raise sim_oserror(errno.ENOENT, "No such file or directory",
                                  path)

    def _unlink_quiet(self, path):
        try:
            os.unlink(self.real(path))
        except OSError:
            pass

    def rename(self, src, dst):
        src = self._p(src)
        dst = self._p(dst)
        self.step("rename", dst, 0, True)
        if not os.path.exists(self.real(src)):
            raise sim_oserror(errno.ENOENT, "No such file or directory", src)
        if self._fs_of(src) != self._fs_of(dst):
            raise sim_oserror(errno.EXDEV, "Invalid cross-device link", src)
        os.replace(self.real(src), self.real(dst))

    def chmod(self, path, mode):
        path = self._p(path)
        self.step("chmod", path, 0, False)
        os.chmod(self.real(path), mode)

    def fsync(self, fd):
        if hasattr(fd, "fileno"):
            fd = fd.fileno()
        raw = self.fds.get(fd)
        if raw is None:
            raise sim_oserror(errno.EBADF, "Bad file descriptor")
        if raw.dead:
            return
        n = self.step("fsync", raw.path, 0, False)
        os.fsync(fd)
        self.post(n)

    def copyfile(self, src, dst, with_mode=True):
        src = self._p(src)
        dst = self._p(dst)
        self.step("copy-open-src", src, 0, False)
        if not os.path.exists(self.real(src)):
            raise sim_oserror(errno.ENOENT, "No such file or directory", src)
        self.step("copy-open-dst", dst, 0, True)
        with open(self.real(src), "rb") as f:
            data = f.read()
        with open(self.real(dst), "wb") as g:
            chunk = self.copy_chunk or max(len(data), 1)
            for i in range(0, len(data), chunk):
                piece = data[i:i + chunk]
                self.step("copy-chunk", dst, len(piece), True)
                g.write(piece)
                g.flush()
        if with_mode:
            self.step("chmod", dst, 0, False)
            shutil.copymode(self.real(src), self.real(dst))
        return dst

    def makedirs(self, path, mode=0o777, exist_ok=False):
        os.makedirs(self.real(self._p(path)), mode, exist_ok)
