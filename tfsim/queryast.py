"""Query ASTs (JSON) and their compilation to tinyflux query objects.

The same AST is evaluated by the reference model (model.eval_query).
"""

from . import catalog
from .catalog import time_from_json


def compile_query(q, tf, wrap=None):
    """AST -> tinyflux query.  `tf` is the imported tinyflux package.
    `wrap(name, fn)` may wrap user functions (collaborator faults)."""
    k = q["k"]
    if k == "and":
        return compile_query(q["a"], tf, wrap) & compile_query(q["b"], tf,
                                                              wrap)
    if k == "or":
        return compile_query(q["a"], tf, wrap) | compile_query(q["b"], tf,
                                                              wrap)
    if k == "not":
        return ~compile_query(q["q"], tf, wrap)
    attr = q["attr"]
    base = {"time": tf.TimeQuery, "measurement": tf.MeasurementQuery,
            "tag": tf.TagQuery, "field": tf.FieldQuery}[attr]()
    if k == "noop":
        return base.noop()
    for name in q.get("premaps", ()):
        fn = catalog.PREMAPS[name]
        if wrap is not None:
            fn = wrap("map:" + name, fn)
        base = base.map(fn)
    if "key" in q:
        base = base[q["key"]]
    for name in q.get("maps", ()):
        fn = catalog.MAPS[name]
        if wrap is not None:
            fn = wrap("map:" + name, fn)
        base = base.map(fn)
    if k == "exists":
        return base.exists()
    if k == "cmp":
        rhs = q["rhs"]
        if attr == "time" and isinstance(rhs, dict):
            rhs = time_from_json(rhs)
        op = q["op"]
        if op == "==":
            return base == rhs
        if op == "!=":
            return base != rhs
        if op == "<":
            return base < rhs
        if op == "<=":
            return base <= rhs
        if op == ">":
            return base > rhs
        if op == ">=":
            return base >= rhs
        raise ValueError(op)
    if k == "re":
        if q["fn"] == "matches":
            return base.matches(q["pat"], q.get("flags", 0))
        return base.search(q["pat"], q.get("flags", 0))
    if k == "test":
        fn = catalog.TESTS[q["f"]]
        if wrap is not None:
            fn = wrap("test:" + q["f"], fn)
        return base.test(fn, *q.get("args", ()))
    raise ValueError("bad query node %r" % (k,))


def shape(q):
    """Structural signature of a query (for distinct-counting)."""
    k = q["k"]
    if k in ("and", "or"):
        return "(%s %s %s)" % (shape(q["a"]), k, shape(q["b"]))
    if k == "not":
        return "~" + shape(q["q"])
    s = "%s.%s" % (q["attr"], k)
    if k == "cmp":
        s += q["op"]
    if q.get("maps"):
        s += "+map"
    if q.get("premaps"):
        s += "+premap"
    return s


def depth(q):
    k = q["k"]
    if k in ("and", "or"):
        return 1 + max(depth(q["a"]), depth(q["b"]))
    if k == "not":
        return 1 + depth(q["q"])
    return 0


def has_attr(q, attr):
    k = q["k"]
    if k in ("and", "or"):
        return has_attr(q["a"], attr) or has_attr(q["b"], attr)
    if k == "not":
        return has_attr(q["q"], attr)
    return q["attr"] == attr
