"""Running cases, exploring seeds, batches over worker processes."""

import copy
import gc
import hashlib
import json
import os
import signal
import time
import traceback

from . import catalog, gen, profiles
from .seams import set_tz
from .simdisk import HarnessError
from .world import (DEFAULT_CFG, Foreign, INSERTS, READS, REWRITES,
                    Violation, World, WRITES, diff_points)

_TF = None


def tf():
    global _TF
    if _TF is None:
        from .loader import load_tinyflux
        _TF = load_tinyflux()
    return _TF


class WallCap(HarnessError):
    pass


def _alarm(signum, frame):
    raise WallCap("per-run wall cap exceeded")


class CaseResult:
    def __init__(self):
        self.violation = None  # dict
        self.foreign = None
        self.harness = None
        self.world = None

    def vio_key(self):
        v = self.violation
        return None if v is None else (v["property"], v["oracle"])


def run_case(prop, cfg, ops, opts=None, wall=60):
    """One simulated run.  Never raises for violations; harness errors are
    returned in .harness."""
    r = CaseResult()
    opts = dict(opts or {})
    if prop in ("C04", "C05") and cfg.get("storage", "csv") == "csv":
        opts["twin_runner"] = _make_twin(cfg, ops)
    w = World(cfg, prop, tf(), opts)
    r.world = w
    old = signal.signal(signal.SIGALRM, _alarm)
    signal.alarm(wall)
    try:
        w.run(ops)
        if w.foreign is not None:
            r.foreign = str(w.foreign)
    except Violation as v:
        r.violation = {"property": v.prop, "oracle": v.oracle,
                       "message": v.msg, "op_index": v.op_index}
        plan = dict(w.control_plan)
        if v.oracle.startswith(("wrong-answer-after-ioerror",
                                "ioerror-file-after-close")):
            # the pruning of the admissible set may itself have been misled
            # by a wrong answer: try every outcome of the failed operation
            io = getattr(w, "io_fault_op", None)
            if io is not None:
                plan[io] = ("either",)
        direct = v.oracle.startswith((
            "crash-", "ioerror-file-neither", "ioerror-file-undecodable",
            "ioerror-swallowed", "ioerror-replaced",
            "files-left-behind-after-ioerror", "reopen-after-ioerror",
            "failed-insert", "read-during-failed-insert"))
        # what the fault did at the faulted operation itself needs no
        # control; what goes wrong later does
        if w.faulted and not direct and not opts.get("no_control") and \
                _control_diverges(cfg, ops, v.op_index, plan):
            # the same history without the injected fault goes wrong as
            # well: whatever this is, it is not a consequence of the fault
            r.violation = None
            r.foreign = "foreign ['control'] diverges-without-fault at op " \
                "%d: %s" % (v.op_index, v.msg[:200])
            w.probe("fault-free-control-diverges")
    except WallCap as e:
        r.harness = "wall-cap: %s" % e
    except Exception as e:
        r.harness = "%s: %s\n%s" % (type(e).__name__, e,
                                    traceback.format_exc()[-2500:])
    finally:
        signal.alarm(0)
        signal.signal(signal.SIGALRM, old)
        set_tz("UTC")
    return r


def _strip(op):
    o = copy.deepcopy(op)
    o.pop("faults", None)
    o.pop("cfault", None)
    o.pop("poison", None)
    return o


def _control_variants(ops, upto, plan):
    """Fault-free histories equivalent to the faulted one: every faulted
    operation is replaced by what it amounted to (dropped, completed, a
    prefix of an insert_multiple), followed by a clean reopen where the
    fault was a process death.  An I/O error may have left either outcome:
    both are tried."""
    variants = [[]]
    for i, op in enumerate(ops[:upto + 1]):
        p = plan.get(i)
        if p is None or i == upto and p[0] != "either" and False:
            for v in variants:
                v.append(_strip(op))
            continue
        reopen = [{"op": "reopen", "how": "close",
                   "cfg": {"access_mode": "r+"}}] if "reopen" in p else []
        # an operation that had no effect on the contents still performed
        # the automatic reindex of a read: the control keeps that part
        stand_in = [] if op["op"] in ("insert", "insert_multiple",
                                      "bad_point", "clock", "reopen") \
            else [{"op": "get_measurements"}]
        if p[0] == "drop":
            for v in variants:
                v.extend(stand_in)
                v.extend(reopen)
        elif p[0] == "keep":
            for v in variants:
                v.append(_strip(op))
                v.extend(reopen)
        elif p[0] == "prefix":
            o = _strip(op)
            o["pts"] = o["pts"][:p[2]]
            for v in variants:
                v.append(o)
                v.extend(reopen)
        else:  # either
            if len(variants) > 4:
                for v in variants:
                    v.append(_strip(op))
                continue
            new = []
            for v in variants:
                new.append(v + stand_in)
                new.append(v + [_strip(op)])
            variants = new
    return variants


def _control_diverges(cfg, ops, upto, plan=None):
    """Fault-free controls of a faulted history (one per possible outcome
    of the faulted operations).  True if a control goes wrong as well: then
    something other than the fault is broken, and the failure is not
    attributed to the fault property."""
    tz_before = os.environ.get("TZ", "UTC")
    try:
        for ctl in _control_variants(ops, upto, plan or {}):
            w2 = World(cfg, "__control__", tf())
            try:
                w2.run(ctl)
            except Violation:
                return True
            except Exception:
                continue
            if w2.foreign is not None:
                return True
            relevant = [k for k in w2.stats if k.startswith("foreign-soft:")
                        and k[13:] not in ("files-left-behind",
                                           "bytes-changed",
                                           "write-allowed-in-mode")]
            if relevant:
                return True
        return False
    finally:
        set_tz(tz_before)


def _make_twin(cfg, ops):
    def twin(i):
        cfg2 = dict(cfg)
        cfg2["storage"] = "mem"
        w2 = World(cfg2, "__twin__", tf(), {"emulate_reopen": True})
        tz_before = os.environ.get("TZ", "UTC")
        try:
            w2.run(ops[:i + 1])
        except Violation:
            return True
        finally:
            set_tz(tz_before)
        return w2.foreign is not None
    return twin


# ------------------------------------------------------------------ C10 twin
def flip_routes(ops):
    """The same history with every handle-routed operation sent through the
    database-level API restricted to that measurement."""
    out = []
    for op in ops:
        o = copy.deepcopy(op)
        if o.get("via") == "h":
            o.pop("via")
            o.pop("hmode", None)
            k = o["op"]
            if k == "remove_all":
                o = {"op": "drop", "name": o["m"]}
            elif k == "update_all":
                o["op"] = "update"
                o["q"] = {"k": "noop", "attr": "measurement"}
            elif k in ("len", "all", "iter"):
                o["_restrict"] = True
        out.append(o)
    return out


def eval_twin_route(prop, cfg, ops, opts=None):
    """C10: run the history as given and with routes flipped; every result
    and the final contents must agree."""
    a = run_case("C10", cfg, ops, opts)
    r = CaseResult()
    r.world = a.world
    if a.harness:
        r.harness = a.harness
        return r
    if a.violation:
        r.violation = a.violation
        return r
    ops_b = flip_routes(ops)
    b = run_case("__twin__", cfg, ops_b, opts)
    if b.harness:
        r.harness = b.harness
        return r
    wa, wb = a.world, b.world
    n = min(len(wa.results), len(wb.results))
    for i in range(n):
        op = ops[i]
        if op["op"] in ("index_valid", "reindex", "iter_suspend",
                        "iter_resume", "clock"):
            # whether the index happens to be valid is not a result: the
            # handle's all()/iteration/len never trigger the automatic
            # reindex while their database-level counterparts do
            continue
        if op.get("via") != "h":
            if wa.results[i] != wb.results[i]:
                # a db-level operation answers differently: an earlier
                # handle-level operation had a different effect
                pass
            else:
                continue
        ra, rb = wa.results[i], wb.results[i]
        wa.evals += 1
        wa.nontrivial.add((op["op"], op.get("hmode"), catalog.canon(ra)[:60]))
        if ra == rb:
            ra, rb = wa.state_trace.get(i), wb.state_trace.get(i)
            if ra is None or rb is None:
                continue
        if ra != rb:
            r.violation = {
                "property": "C10", "oracle": "handle-vs-filtered-db",
                "message": "op %d %s %s: through the handle -> %s ; through "
                           "the database restricted to %r -> %s"
                           % (i, op["op"], _brief(op), _short(ra),
                              op.get("m"), _short(rb)),
                "op_index": i}
            return r
    if wa.foreign is None and wb.foreign is None and \
            len(wa.results) == len(wb.results):
        sa = getattr(wa, "final_points", None)
        sb = getattr(wb, "final_points", None)
        if sa is not None and sb is not None and \
                diff_points(sa, sb) is not None:
            r.violation = {
                "property": "C10", "oracle": "handle-vs-filtered-db-state",
                "message": "final contents differ: %s"
                           % (diff_points(sa, sb)[1],),
                "op_index": len(ops)}
            return r
    # restricted len/all/iter through a handle: compare with the model of
    # the as-given world (they have no database-level equivalent)
    for i in range(n):
        if ops_b[i].get("_restrict") and wa.foreign is None:
            pass
    if wa.foreign is not None:
        r.foreign = str(wa.foreign)
    return r


def _brief(op):
    d = {k: v for k, v in op.items() if k != "op"}
    s = catalog.canon(d)
    return s if len(s) < 240 else s[:240] + "..."


def _short(v):
    s = json.dumps(v, default=repr)
    return s if len(s) < 240 else s[:240] + "..."


EVALUATORS = {"single": run_case, "twin_route": eval_twin_route}


def evaluator_for(prop):
    return "twin_route" if prop == "C10" else "single"


def evaluate(prop, cfg, ops, how=None, opts=None):
    return EVALUATORS[how or evaluator_for(prop)](prop, cfg, ops, opts)


# ------------------------------------------------------------------ seeds
class Agg:
    """Aggregated measurements of a batch (mergeable across workers)."""

    def __init__(self):
        self.runs = 0
        self.cases = 0
        self.ops = 0
        self.steps = 0
        self.evals = 0
        self.sim_us = 0
        self.stats = {}
        self.probes = {}
        self.states = set()
        self.trigrams = set()
        self.fault_sites = set()
        self.nontrivial = set()
        self.sizes = {}
        self.foreign = {}
        self.failures = []  # (seed, cfg, ops, violation, how)
        self.harness = []
        self.samples = []
        self.digests = {}

    def add_world(self, w):
        self.cases += 1
        self.ops += w.stats.get("ops", 0)
        self.steps += w.stats.get("steps", 0)
        self.evals += w.evals
        self.sim_us += w.clock.covered_us
        for k, v in w.stats.items():
            self.stats[k] = self.stats.get(k, 0) + v
        for k, v in w.probes.items():
            self.probes[k] = self.probes.get(k, 0) + v
        self.states |= w.states
        self.trigrams |= w.trigrams
        self.fault_sites |= w.fault_sites
        self.nontrivial |= {catalog.canon(x) for x in w.nontrivial}
        for k, v in w.sizes.items():
            self.sizes[k] = max(self.sizes.get(k, 0), v)

    def add_result(self, seed, cfg, ops, r, how="single"):
        if r.world is not None:
            self.add_world(r.world)
            # chained digest of every case explored for this seed
            self.digests[seed] = hashlib.sha256(
                (self.digests.get(seed, "") + r.world.digest.hexdigest() +
                 catalog.canon(r.violation) + str(r.foreign)).encode()
            ).hexdigest()
        if r.violation is not None:
            trig = bool(cfg.get("triggers"))
            n_same = sum(1 for f in self.failures
                         if bool(f[1].get("triggers")) == trig)
            if n_same < (6 if trig else 14):
                self.failures.append((seed, cfg, ops, r.violation, how))
            else:
                self.stats["failures-dropped"] = self.stats.get(
                    "failures-dropped", 0) + 1
        if r.foreign:
            key = r.foreign.split(" at op")[0]
            self.foreign[key] = self.foreign.get(key, 0) + 1
        if r.world is not None and r.world.soft_foreign:
            self.stats["oracle-failures-of-other-properties-seen"] = \
                self.stats.get("oracle-failures-of-other-properties-seen",
                               0) + r.world.soft_foreign
        if r.harness:
            if len(self.harness) < 5:
                self.harness.append((seed, r.harness))

    def merge(self, o):
        self.runs += o.runs
        self.cases += o.cases
        self.ops += o.ops
        self.steps += o.steps
        self.evals += o.evals
        self.sim_us += o.sim_us
        for k, v in o.stats.items():
            self.stats[k] = self.stats.get(k, 0) + v
        for k, v in o.probes.items():
            self.probes[k] = self.probes.get(k, 0) + v
        for k, v in o.foreign.items():
            self.foreign[k] = self.foreign.get(k, 0) + v
        self.states |= o.states
        self.trigrams |= o.trigrams
        self.fault_sites |= o.fault_sites
        self.nontrivial |= o.nontrivial
        for k, v in o.sizes.items():
            self.sizes[k] = max(self.sizes.get(k, 0), v)
        self.failures.extend(o.failures)
        self.harness.extend(o.harness)
        if len(self.samples) < 3:
            self.samples.extend(o.samples[:3 - len(self.samples)])
        self.digests.update(o.digests)


def explore_seed(prop, seed, tier, agg):
    """Everything a check does for one seed."""
    from . import sweeps
    prof = profiles.get(prop, tier)
    cfg, ops = gen.generate(seed, prof, prop, tier)
    agg.runs += 1
    if len(agg.samples) < 3:
        agg.samples.append({"seed": seed, "cfg": _cfg_diff(cfg),
                            "ops": ops[:12], "n_ops": len(ops)})
    if prop == "C10":
        r = eval_twin_route(prop, cfg, ops)
        agg.add_result(seed, cfg, ops, r, "twin_route")
        return
    if prop in sweeps.SWEEPS:
        sweeps.SWEEPS[prop](prop, seed, cfg, ops, tier, agg)
        return
    r = run_case(prop, cfg, ops)
    agg.add_result(seed, cfg, ops, r)


def _cfg_diff(cfg):
    return {k: v for k, v in cfg.items() if DEFAULT_CFG.get(k) != v}


def run_seeds(prop, tier, seeds, deadline=None):
    """Worker entry point."""
    gc.disable()
    agg = Agg()
    from . import sweeps
    sweeps.DEADLINE = deadline
    for n, seed in enumerate(seeds):
        if deadline is not None and time.time() > deadline:
            agg.stats["seeds-skipped-deadline"] = len(seeds) - n
            break
        try:
            explore_seed(prop, seed, tier, agg)
        except Exception as e:
            agg.harness.append((seed, "%s: %s\n%s" % (
                type(e).__name__, e, traceback.format_exc()[-2500:])))
        if n % 50 == 49:
            gc.collect()
    return agg
