"""Per-property generation profiles (DESIGN section 2.5): each pins the
dimensions irrelevant to its property and widens the ones it is about."""

from .gen import profile

PROFILES = {
    "C01": profile(scan=0.5, reads_after=(1, 4), via_h=0.0,
                   mix={"read": 8, "getter": 0, "cursor": 0}),
    "C02": profile(mix={"remove": 6, "drop": 1.5, "remove_all": 0.6,
                        "update": 1, "read": 3, "getter": 1}),
    "C03": profile(mix={"update": 6, "update_all": 2, "remove": 1,
                        "read": 3, "getter": 1}),
    "C06": profile(mix={"read": 3, "getter": 2, "lifecycle": 1.5,
                        "invalid": 1.5}, auto_index=[True, True, False],
                   len=(3, 60)),
    "C07": profile(scan=0.5, read_vs_getter=0.1,
                   alphabets=["plain", "hostile", "hostile"],
                   mix={"read": 0, "getter": 8}, reads_after=(1, 4)),
}


def get(prop, tier="quick"):
    p = dict(PROFILES[prop])
    if tier == "thorough":
        lo, hi = p["len"]
        p["len"] = (lo, hi * 2)
        p["max_points"] = 120 if prop not in ("C12", "C13") else 30
        p["qdepth"] = 4
    return p
