"""Per-property generation profiles (DESIGN section 2.5): each pins the
dimensions irrelevant to its property and widens the ones it is about."""

from .gen import profile

ALL_ZONES = ["UTC", "America/Los_Angeles", "Australia/Lord_Howe",
             "Asia/Kathmandu"]

PROFILES = {
    # -- fault-free, exact model -------------------------------------------
    "C01": profile(scan=0.5, reads_after=(1, 4), zones=ALL_ZONES,
                   flush_vary=True, long_strings=0.03, compact=0.3,
                   numbers=["small", "small", "boundary"],
                   alphabets=["plain", "plain", "reserved", "fuzz"],
                   mix={"read": 8, "getter": 0, "bulk": 0.15}),
    "C02": profile(modes=["r+", "r+", "r+", "w+"], zones=ALL_ZONES,
                   flush_vary=True, alphabets=["plain", "plain", "hostile"],
                   via_h=0.15,
                   mix={"remove": 6, "drop": 1.5, "remove_all": 0.6,
                        "update": 1, "read": 3, "getter": 1}),
    "C03": profile(modes=["r+", "r+", "r+", "w+"], update_time_rich=True,
                   zones=ALL_ZONES, flush_vary=True, via_h=0.15,
                   alphabets=["plain", "plain", "hostile"],
                   mix={"update": 6, "update_all": 2, "remove": 1,
                        "read": 3, "getter": 1}),
    "C06": profile(mix={"read": 3, "getter": 2, "lifecycle": 1.5,
                        "invalid": 1.5}, auto_index=[True, True, False],
                   zones=ALL_ZONES, flush_vary=True,
                   len=(3, 60)),
    "C07": profile(scan=0.5, read_vs_getter=0.1, zones=ALL_ZONES,
                   flush_vary=True, compact=0.3, via_h=0.2,
                   alphabets=["plain", "hostile", "hostile", "reserved",
                              "fuzz"],
                   mix={"read": 0, "getter": 8}, reads_after=(1, 4)),
    "C08": profile(time="rich", zones=ALL_ZONES,
                   update_args=["time"], scan=0.4,
                   leaf_attr={"time": 8, "measurement": 0.5, "tag": 1,
                              "field": 1},
                   mix={"insert": 6, "insert_multiple": 2, "update": 3,
                        "update_all": 0.7, "remove": 0, "remove_all": 0,
                        "drop": 0, "read": 5, "getter": 3,
                        "lifecycle": 1.5, "clock": 2},
                   read_vs_getter=0.6, reads_after=(1, 3)),
    "C10": profile(via_h=0.6, measurement_filter=0.6,
                   alphabets=["plain", "plain", "reserved"],
                   mix={"read": 4, "getter": 3, "remove_all": 0.6,
                        "drop": 0.8}),
    # -- the simulated disk -----------------------------------------------------
    "C04": profile(storages=["csv"], csv_vary=True, compact=0.5,
                   zones=ALL_ZONES,
                   modes=["r+", "r+", "r+", "w+", "a+"], known_triggers=0.04,
                   alphabets=["plain", "hostile", "wide", "latin1",
                              "reserved", "fuzz"],
                   numbers=["small", "small", "boundary", "fuzz"],
                   long_strings=0.06, other_db=0.25,
                   mix={"cursor": 3, "read": 2, "getter": 1,
                        "lifecycle": 1.2, "bulk": 0.15}, reads_after=(0, 2)),
    "C05": profile(storages=["csv"], compact=0.5, known_triggers=0.04,
                   zones=ALL_ZONES, other_db=0.25,
                   alphabets=["hostile", "reserved", "wide", "hostile", "fuzz",
                              "fuzz"],
                   numbers=["boundary", "boundary", "small", "fuzz", "fuzz"],
                   none_values=0.2, long_strings=0.06,
                   cfg_dialects=True,
                   mix={"insert": 7, "insert_multiple": 3, "update": 2,
                        "update_all": 0.5, "remove": 2, "remove_all": 0.1,
                        "drop": 0.3, "read": 1, "getter": 1,
                        "lifecycle": 1.5, "clock": 0.5},
                   reads_after=(0, 1)),
    "C15": profile(storages=["csv"], modes=["r", "r+", "a", "a+", "w",
                                            "w+", "r+", "r"], external=0.4,
                   mix={"read": 5, "getter": 4, "cursor": 2,
                        "lifecycle": 2.5, "invalid": 1.5, "illtyped": 0.5,
                        "remove": 3, "update": 3}, reads_after=(0, 2)),
    "C16": profile(storages=["csv"], auto_index=[True, False],
                   long_strings=0.05,
                   mix={"insert": 8, "insert_multiple": 4, "cursor": 4,
                        "read": 2, "getter": 1, "update": 0.7,
                        "remove": 0.7, "lifecycle": 0.7, "bulk": 0.2,
                        "invalid": 1.0},
                   reads_after=(0, 1), max_points=25),
    # -- collaborator faults -----------------------------------------------------
    "C11": profile(mix={"invalid": 5, "illtyped": 1.5, "read": 3,
                        "getter": 2, "lifecycle": 0.5},
                   auto_index=[True, False], len=(3, 25)),
    "C14": profile(mix={"illtyped": 6, "read": 2, "getter": 2,
                        "lifecycle": 0.5}, len=(3, 25)),
    # -- I/O faults ----------------------------------------------------------------
    "C12": profile(storages=["csv"], len=(3, 14), max_points=10,
                   faults_need_atomic_rows=True, flush_off=0.3,
                   mix={"update": 3, "remove": 3, "remove_all": 0.5,
                        "drop": 0.7, "read": 1, "getter": 0.5,
                        "lifecycle": 0.3, "cursor": 1}, reads_after=(0, 1)),
    "C13": profile(storages=["csv"], len=(3, 14), max_points=10,
                   faults_need_atomic_rows=True, via_h=0.2,
                   modes=["r+", "r+", "r+", "w+", "a+"],
                   initial_mode_vary=True,
                   cfg_override={"flush_on_insert": True},
                   mix={"update": 3, "remove": 3, "remove_all": 0.5,
                        "drop": 0.7, "read": 2, "getter": 1,
                        "lifecycle": 0.5, "cursor": 1}, reads_after=(0, 1)),
}


def get(prop, tier="quick"):
    p = dict(PROFILES[prop])
    if tier == "thorough":
        lo, hi = p["len"]
        p["len"] = (lo, hi * 2)
        p["max_points"] = 120 if prop not in ("C12", "C13") else 30
        p["qdepth"] = 4
    return p
