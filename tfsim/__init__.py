"""tfsim - deterministic simulation of tinyflux with fault injection.

See /verif/DESIGN.md.  Everything in here is harness code; the code under
test is the unmodified `tinyflux` package imported from the /repo working
tree (or from $VERIF_REPO).
"""
