"""Fault sweeps: the same history re-executed from its seed under many fault
plans (a pure function of (cfg, ops-with-faults); no snapshots)."""

import copy
import random

from .simdisk import POST_ELIGIBLE, PRE_ELIGIBLE
from .world import INSERTS, READS, REWRITES, WRITES


def _tail(ops, j, with_reopen):
    tail = [copy.deepcopy(o) for o in ops[j + 1:j + 5]]
    for o in tail:
        o.pop("faults", None)
    if with_reopen:
        tail.append({"op": "all", "sorted": False})
        tail.append({"op": "reopen", "how": "close", "cfg": {}})
        tail.extend(copy.deepcopy(o) for o in ops[j + 5:j + 8])
    tail.append({"op": "all", "sorted": False})
    return tail


DEADLINE = None  # set by runner.run_seeds: wall-clock end of the batch


def _late(agg):
    """True once the batch deadline has passed: the sweep of the current
    seed stops where it is (what was explored stays explored)."""
    import time
    if DEADLINE is not None and time.time() > DEADLINE:
        agg.stats["sweeps-cut-by-deadline"] = \
            agg.stats.get("sweeps-cut-by-deadline", 0) + 1
        return True
    return False


def _variant(ops, j, fault, with_reopen):
    head = [copy.deepcopy(o) for o in ops[:j + 1]]
    head[j]["faults"] = [fault]
    return head + _tail(ops, j, with_reopen)


def _pick(rng, items, n):
    items = list(items)
    if len(items) <= n:
        return items
    return rng.sample(items, n)


def sweep_crash(prop, seed, cfg, ops, tier, agg):
    """C12: every mutating step of every write operation is a crash point."""
    from .runner import run_case
    base = run_case(prop, cfg, ops)
    agg.add_result(seed, cfg, ops, base)
    if base.violation or base.harness or base.foreign:
        return
    w = base.world
    rng = random.Random(seed * 7919 + 12)
    targets = [j for j, op in enumerate(ops)
               if op["op"] in WRITES and any(s[3] for s in
                                             w.op_steps.get(j, ()))]
    if tier == "quick":
        rew = [j for j in targets if ops[j]["op"] in REWRITES]
        targets = _pick(rng, rew, 2) + _pick(
            rng, [j for j in targets if j not in rew], 1)
    for j in targets:
        steps = [s for s in w.op_steps[j] if s[3]]
        if tier == "quick":
            swap = [s for s in steps if s[1] in ("copy-open-dst",
                                                 "copy-chunk", "rename",
                                                 "unlink", "truncate")]
            chosen = _pick(rng, swap, 4) + _pick(
                rng, [s for s in steps if s not in swap], 3)
        else:
            chosen = steps
        for s in chosen:
            if _late(agg):
                return
            f = {"step": s[0], "mode": "crash"}
            ops2 = _variant(ops, j, f, False)
            r = run_case(prop, cfg, ops2)
            agg.add_result(seed, cfg, ops2, r)


def sweep_ioerror(prop, seed, cfg, ops, tier, agg):
    """C13: an OSError at every I/O call of every operation (pre-effect;
    for flush/fsync/close also post-effect)."""
    from .runner import run_case
    base = run_case(prop, cfg, ops)
    agg.add_result(seed, cfg, ops, base)
    if base.violation or base.harness or base.foreign:
        return
    w = base.world
    rng = random.Random(seed * 7919 + 13)
    targets = [j for j, op in enumerate(ops)
               if op["op"] in WRITES or op["op"] in READS or
               op["op"] == "reopen"]
    if tier == "quick":
        wr = [j for j in targets if ops[j]["op"] in WRITES]
        targets = _pick(rng, wr, 3) + _pick(
            rng, [j for j in targets if j not in wr], 1)
    for j in targets:
        cands = []
        for s in w.op_steps.get(j, ()):
            if s[1] in PRE_ELIGIBLE:
                cands.append((s, "pre"))
            if s[1] in POST_ELIGIBLE:
                cands.append((s, "post"))
        if tier == "quick":
            # the swap of a rewrite is always among the sampled calls
            swap = [c for c in cands if c[0][1] == "rename" and
                    c[1] == "pre"]
            cands = _pick(rng, [c for c in cands if c not in swap], 6) + swap
        for s, mode in cands:
            if _late(agg):
                return
            f = {"step": s[0], "mode": mode,
                 "err": rng.choice(["EIO", "ENOSPC"])}
            ops2 = _variant(ops, j, f, True)
            r = run_case(prop, cfg, ops2)
            agg.add_result(seed, cfg, ops2, r)
            if ops[j]["op"] in REWRITES and (mode == "post" or s[1] in (
                    "rename", "close", "fsync", "open")):
                # a rewrite that died around its swap may leave the object
                # with a closed or stale handle: follow it with a write that
                # empties the database, then ask for sizes
                ops3 = ops2[:j + 1] + [{"op": "remove_all"}, {"op": "len"},
                                       {"op": "get_measurements"}] + \
                    ops2[j + 1:]
                r = run_case(prop, cfg, ops3)
                agg.add_result(seed, cfg, ops3, r)
            if ops[j]["op"] in READS and s[1] == "read" and mode == "pre":
                # a read that died in the middle of rebuilding the index:
                # ask for sizes straight away, through the database and
                # through measurement handles
                ops3 = ops2[:j + 1] + _size_probes(rng, ops[:j + 1]) + \
                    ops2[j + 1:]
                r = run_case(prop, cfg, ops3)
                agg.add_result(seed, cfg, ops3, r)


def _size_probes(rng, ops):
    names = []
    for o in ops:
        cand = [o.get("m")] + [pt.get("m") for pt in
                               ([o["pt"]] if isinstance(o.get("pt"), dict)
                                else []) + [x for x in o.get("pts", ())
                                            if isinstance(x, dict)]]
        for m in cand:
            if isinstance(m, str) and m and m not in names:
                names.append(m)
    names = _pick(rng, sorted(names), 2) + ["_default"]
    return [{"op": "len", "m": m, "via": "h"} for m in names] + \
        [{"op": "len"}]


def sweep_collab(prop, seed, cfg, ops, tier, agg):
    """C11: the history as generated (it contains invalid calls and failing
    collaborators at drawn positions), plus, for updates with callables,
    a failure at every invocation index."""
    from .runner import run_case
    base = run_case(prop, cfg, ops)
    agg.add_result(seed, cfg, ops, base)
    if base.violation or base.harness or base.foreign:
        return
    rng = random.Random(seed * 7919 + 11)
    targets = []
    for j, op in enumerate(ops):
        if op["op"] in ("update", "update_all") and not op.get("cfault") \
                and not op.get("expect_raise"):
            fns = [k for k in ("time", "measurement", "tags", "fields")
                   if k in op.get("spec", {}) and "fn" in op["spec"][k]]
            if fns:
                targets.append((j, fns))
    if tier == "quick":
        targets = _pick(rng, targets, 2)
    for j, fns in targets:
        for which in fns:
            ns = range(0, 6) if tier != "quick" else _pick(rng, range(0, 5),
                                                           2)
            for n in ns:
                if _late(agg):
                    return
                head = [copy.deepcopy(o) for o in ops[:j + 1]]
                head[j]["cfault"] = {"which": which, "n": n,
                                     "kind": rng.choice(["raise", "raise",
                                                         "ret"]),
                                     }
                if head[j]["cfault"]["kind"] == "ret":
                    head[j]["cfault"]["value"] = _bad_return(which, rng)
                ops2 = head + _tail(ops, j, cfg.get("storage") == "csv")
                r = run_case(prop, cfg, ops2)
                agg.add_result(seed, cfg, ops2, r)
                if r.world is not None and not r.world.stats.get(
                        "fault:collab:" + head[j]["cfault"]["kind"]):
                    break  # fewer invocations than n: larger n fire neither


def _bad_return(which, rng):
    if which == "time":
        return rng.choice([5, "2020-01-01", None])
    if which == "measurement":
        return rng.choice([5, None, ["m"]])
    if which == "tags":
        return rng.choice([{"$tfsim$": "pairs", "v": [["a", 5]]},
                           {"$tfsim$": "pairs", "v": [[5, "x"]]},
                           {"$tfsim$": "pairs", "v": [["a", True]]}, 5,
                           {"$tfsim$": "set", "v": ["a"]}])
    return rng.choice([{"$tfsim$": "pairs", "v": [["p", "1"]]},
                       {"$tfsim$": "pairs", "v": [[5, 1]]},
                       {"$tfsim$": "pairs", "v": [["p", True]]}, 5,
                       {"$tfsim$": "set", "v": ["p"]}])


def sweep_listing(prop, seed, cfg, ops, tier, agg):
    """C15: the history as generated, plus an OSError at a few sampled I/O
    calls of rewriting operations: nothing may be left behind once the call
    has raised (only that clause is judged here; the rest is C13's)."""
    from .runner import run_case
    base = run_case(prop, cfg, ops)
    agg.add_result(seed, cfg, ops, base)
    if base.violation or base.harness or base.foreign:
        return
    if seed % 4 and tier == "quick":
        return
    w = base.world
    rng = random.Random(seed * 7919 + 15)
    targets = [j for j, op in enumerate(ops) if op["op"] in REWRITES and
               len(w.op_steps.get(j, ())) > 12]
    for j in _pick(rng, targets, 1 if tier == "quick" else 4):
        cands = []
        for s in w.op_steps.get(j, ()):
            if s[1] in PRE_ELIGIBLE:
                cands.append((s, "pre"))
            if s[1] in POST_ELIGIBLE:
                cands.append((s, "post"))
        for s, mode in _pick(rng, cands[len(cands) // 2:],
                             3 if tier == "quick" else 12):
            f = {"step": s[0], "mode": mode, "err": "EIO"}
            ops2 = _variant(ops, j, f, False)
            r = run_case(prop, cfg, ops2)
            agg.add_result(seed, cfg, ops2, r)


def sweep_append(prop, seed, cfg, ops, tier, agg):
    """C16: the history as generated, plus an OSError at sampled I/O calls
    of inserts (a failing insert must not start reading or rewriting)."""
    from .runner import run_case
    base = run_case(prop, cfg, ops)
    agg.add_result(seed, cfg, ops, base)
    if base.violation or base.harness or base.foreign:
        return
    if seed % 4 and tier == "quick":
        return
    w = base.world
    rng = random.Random(seed * 7919 + 16)
    targets = [j for j, op in enumerate(ops) if op["op"] in INSERTS and
               w.op_steps.get(j)]
    for j in _pick(rng, targets[len(targets) // 2:],
                   1 if tier == "quick" else 4):
        cands = []
        for s in w.op_steps.get(j, ()):
            if s[1] in PRE_ELIGIBLE:
                cands.append((s, "pre"))
            if s[1] in POST_ELIGIBLE:
                cands.append((s, "post"))
        for s, mode in _pick(rng, cands, 2 if tier == "quick" else 8):
            f = {"step": s[0], "mode": mode, "err": "EIO"}
            ops2 = _variant(ops, j, f, False)
            r = run_case(prop, cfg, ops2)
            agg.add_result(seed, cfg, ops2, r)


def sweep_index(prop, seed, cfg, ops, tier, agg):
    """C06: the history as generated, plus an OSError at sampled read steps
    of operations that rebuild the index (error paths of maintenance)."""
    from .runner import run_case
    base = run_case(prop, cfg, ops)
    agg.add_result(seed, cfg, ops, base)
    if base.violation or base.harness or base.foreign:
        return
    if cfg.get("storage") != "csv" or (seed % 3 and tier == "quick"):
        return
    w = base.world
    rng = random.Random(seed * 7919 + 6)
    targets = [j for j, op in enumerate(ops)
               if any(s[1] in PRE_ELIGIBLE for s in w.op_steps.get(j, ()))]
    for j in _pick(rng, targets, 2 if tier == "quick" else 6):
        reads = [s for s in w.op_steps[j] if s[1] == "read"]
        others = [s for s in w.op_steps[j] if s[1] in PRE_ELIGIBLE and
                  s[1] != "read"]
        chosen = _pick(rng, reads, 1 if tier == "quick" else 4) + \
            _pick(rng, others, 2 if tier == "quick" else 6)
        for s in chosen:
            if _late(agg):
                return
            f = {"step": s[0], "mode": "pre", "err": "EIO"}
            ops2 = _variant(ops, j, f, False)
            r = run_case(prop, cfg, ops2)
            agg.add_result(seed, cfg, ops2, r)


SWEEPS = {"C06": sweep_index, "C16": sweep_append, "C11": sweep_collab, "C12": sweep_crash, "C13": sweep_ioerror,
          "C15": sweep_listing}
