"""Known findings: genuine defects recorded rather than repaired.

`/verif/known_findings.json` is committed and never written at run time.
An `open` entry names the property, the oracle and a predicate over the
*minimised* failing case; a violation is attributed to the entry only if all
three agree, so a different violation of the same property is still
reported.  `fixed` entries suppress nothing.
"""

import json


def _strings(obj):
    if isinstance(obj, str):
        yield obj
    elif isinstance(obj, dict):
        for k, v in obj.items():
            yield k
            yield from _strings(v)
    elif isinstance(obj, (list, tuple)):
        for v in obj:
            yield from _strings(v)


def _measurements(ops):
    for op in ops:
        if op.get("m") is not None:
            yield op["m"]
        if op.get("name") is not None:
            yield op["name"]
        for pt in [op.get("pt")] + list(op.get("pts") or []):
            if isinstance(pt, dict) and pt.get("m") is not None:
                yield pt["m"]
        spec = op.get("spec") or {}
        ms = spec.get("measurement")
        if isinstance(ms, dict):
            if "static" in ms:
                yield ms["static"]
            if "arg" in ms:
                yield ms["arg"]


def _tag_values(ops):
    for op in ops:
        for pt in [op.get("pt")] + list(op.get("pts") or []):
            if isinstance(pt, dict):
                for v in (pt.get("tags") or {}).values():
                    yield v
        spec = op.get("spec") or {}
        ts = spec.get("tags")
        if isinstance(ts, dict):
            for src in (ts.get("static"), ts.get("arg")):
                if isinstance(src, dict):
                    for v in src.values():
                        yield v


def _all_strings(ops):
    for op in ops:
        yield from _strings(op)


PREDICATES = {
    # csv dialect with lineterminator="\n" and a string containing a bare CR
    "csv_lf_dialect_with_cr": lambda cfg, ops: cfg.get("dialect") == "lf"
    and any("\r" in s for s in _all_strings(ops)),
    # a measurement name or measurement filter equal to '' occurs
    "empty_measurement": lambda cfg, ops: any(
        m == "" for m in _measurements(ops)),
    # a tag value equal to the reserved word '_none' occurs
    "none_sentinel_tag_value": lambda cfg, ops: cfg.get(
        "storage", "csv") == "csv" and any(
        v == "_none" for v in _tag_values(ops)),
}


def match(findings, violation, cfg, ops):
    for k in findings:
        if k.get("status") != "open":
            continue
        if k["property"] != violation["property"]:
            continue
        sig = k.get("signature", {})
        oracles = sig.get("oracles")
        if oracles and not any(violation["oracle"].startswith(o)
                               for o in oracles):
            continue
        pred = PREDICATES.get(sig.get("predicate"))
        if pred is None or not pred(cfg, ops):
            continue
        return k
    return None
