"""Named, deterministic user functions (query tests/maps, update callables).

They are referred to by name in operations so that histories serialise to
JSON.  The same function object is handed to tinyflux and to the reference
model.  Entries are total unless marked partial.
"""

import datetime as _dt
import json

UTC = _dt.timezone.utc


# ---------------------------------------------------------------- times
def _zone(name):
    import zoneinfo
    return zoneinfo.ZoneInfo(name)


def time_from_json(j):
    """{'iso': '2020-01-01T00:00:00.000001+05:45'} or naive -> datetime."""
    if j is None:
        return None
    t = _dt.datetime.fromisoformat(j["iso"])
    if j.get("fold"):
        t = t.replace(fold=1)
    if j.get("zone"):
        # wall-clock time in a named zone (the tzinfo is a ZoneInfo object)
        t = t.replace(tzinfo=_zone(j["zone"]))
    return t


def time_to_json(t):
    if t.fold:
        return {"iso": t.isoformat(), "fold": 1}
    return {"iso": t.isoformat()}


def to_instant(t):
    """Documented meaning of a datetime: aware = that instant, naive = local
    time of the process (evaluated under the current TZ)."""
    return t.astimezone(UTC)


# ---------------------------------------------------------------- query maps
def _upper(v):
    return v.upper()  # partial: raises on None


def _upper_total(v):
    return v.upper() if isinstance(v, str) else v


def _first(v):
    return v[:1]  # partial on None


def _strlen(v):
    return len(v)  # partial on None


def _neg(v):
    return -v  # partial on None


def _abs_total(v):
    return abs(v) if v is not None else None


def _plus1(v):
    return v + 1  # partial on None


def _inv(v):
    return 1 / v  # partial on None and 0


def _half(v):
    return v / 2 if v is not None else None


def _t_plus_hour(t):
    return t + _dt.timedelta(hours=1)


def _t_floor_min(t):
    return t.replace(second=0, microsecond=0)


def _t_us(t):
    return t.microsecond


def _t_year(t):
    return t.year


def _dict_len(d):
    return len(d)


def _dict_get_a(d):
    return d.get("a")


def _dict_keys(d):
    return ",".join(sorted(d))


# functions at the head of a tag / field path: they receive the whole set
PREMAPS = {"dict_len": _dict_len, "dict_get_a": _dict_get_a,
           "dict_keys": _dict_keys}
PREMAP_OUT = {"dict_len": "num", "dict_get_a": "any", "dict_keys": "str"}

MAPS = {
    "upper": _upper, "upper_total": _upper_total, "first": _first,
    "strlen": _strlen, "neg": _neg, "abs_total": _abs_total,
    "plus1": _plus1, "inv": _inv, "half": _half,
    "t_plus_hour": _t_plus_hour, "t_floor_min": _t_floor_min,
    "t_us": _t_us, "t_year": _t_year,
}
# which attribute kinds a map applies to, and what it returns
MAP_SIG = {
    "upper": ("str", "str"), "upper_total": ("str", "str"),
    "first": ("str", "str"), "strlen": ("str", "num"),
    "neg": ("num", "num"), "abs_total": ("num", "num"),
    "plus1": ("num", "num"), "inv": ("num", "num"), "half": ("num", "num"),
    "t_plus_hour": ("time", "time"), "t_floor_min": ("time", "time"),
    "t_us": ("time", "num"), "t_year": ("time", "num"),
}


# ---------------------------------------------------------------- query tests
def _is_none(v):
    return v is None


def _not_none(v):
    return v is not None


def _num_pos(v):
    return isinstance(v, (int, float)) and v > 0


def _num_even(v):
    return isinstance(v, (int, float)) and v == v and abs(v) != float("inf") \
        and int(v) % 2 == 0


def _num_ge(v, bound):
    return isinstance(v, (int, float)) and v >= bound


def _str_has(v, sub):
    return isinstance(v, str) and sub in v


def _str_short(v):
    return isinstance(v, str) and len(v) <= 2


def _str_empty(v):
    return v == ""


def _t_us_odd(t):
    return t.microsecond % 2 == 1


def _t_after(t, iso):
    return t > _dt.datetime.fromisoformat(iso)


def _t_minute_lt30(t):
    return t.minute < 30


def _always(v):
    return True


def _never(v):
    return False


TESTS = {
    "is_none": _is_none, "not_none": _not_none, "num_pos": _num_pos,
    "num_even": _num_even, "num_ge": _num_ge, "str_has": _str_has,
    "str_short": _str_short, "str_empty": _str_empty,
    "t_us_odd": _t_us_odd, "t_after": _t_after,
    "t_minute_lt30": _t_minute_lt30, "always": _always, "never": _never,
}
TEST_SIG = {
    "is_none": "any", "not_none": "any", "num_pos": "any", "num_even": "any",
    "num_ge": "any", "str_has": "any", "str_short": "any",
    "str_empty": "any", "t_us_odd": "time", "t_after": "time",
    "t_minute_lt30": "time", "always": "any", "never": "any",
}


# ---------------------------------------------------------------- updaters
class Collab:
    """Wraps a catalogue function so that the simulator can make its n-th
    invocation raise, or return an ill-typed value (F-raise / F-illtyped)."""

    def __init__(self, name, fn):
        self.name = name
        self.fn = fn
        self.calls = 0
        self.fault = None  # (n, 'raise' | ('ret', value))
        self.fired = False

    def __call__(self, *a):
        n = self.calls
        self.calls += 1
        if self.fault is not None and self.fault[0] == n:
            self.fired = True
            if self.fault[1] == "raise":
                raise CollabError("injected failure in %s call %d"
                                  % (self.name, n))
            if self.fault[1] == "interrupt":
                raise CollabInterrupt("injected interrupt in %s call %d"
                                      % (self.name, n))
            if self.fault[1] == "boolify":
                # the result this call would have given, with one number
                # replaced by the bool that compares equal to it
                self.fired = False
                r = self.fn(*a)
                if isinstance(r, dict):
                    for k, v in r.items():
                        if isinstance(v, (int, float)) and not isinstance(
                                v, bool) and v in (0, 1):
                            r = dict(r)
                            r[k] = bool(v)
                            self.fired = True
                            break
                return r
            return self.fault[1][1]
        return self.fn(*a)

    def __repr__(self):
        return "<collab %s>" % self.name


class CollabError(RuntimeError):
    pass


class CollabInterrupt(BaseException):
    """A collaborator is interrupted (KeyboardInterrupt / SystemExit style):
    not an Exception subclass."""


def make_time_updater(spec):
    fn = spec["fn"]
    if fn == "shift":
        d = _dt.timedelta(microseconds=spec["arg"])
        return lambda t: t + d
    if fn == "identity":
        return lambda t: t
    if fn == "fixed":
        v = time_from_json(spec["arg"])
        return lambda t: v
    if fn == "to_zone":
        tz = _dt.timezone(_dt.timedelta(minutes=spec["arg"]))
        return lambda t: t.astimezone(tz)
    if fn == "to_naive_local":
        return lambda t: t.astimezone().replace(tzinfo=None)
    if fn == "floor_sec":
        return lambda t: t.replace(microsecond=0)
    raise KeyError(fn)


def make_measurement_updater(spec):
    fn = spec["fn"]
    if fn == "const":
        v = spec["arg"]
        return lambda m: v
    if fn == "suffix":
        s = spec["arg"]
        return lambda m: m + s
    if fn == "identity":
        return lambda m: m
    if fn == "upper":
        return lambda m: m.upper()
    raise KeyError(fn)


def make_tags_updater(spec):
    fn = spec["fn"]
    if fn == "merge_const":
        c = dict(spec["arg"])
        return lambda tags: {**tags, **c}
    if fn == "only_const":
        c = dict(spec["arg"])
        return lambda tags: dict(c)
    if fn == "identity":
        return lambda tags: tags
    if fn == "empty":
        return lambda tags: {}
    if fn == "upper_values":
        return lambda tags: {k: (v.upper() if isinstance(v, str) else v)
                             for k, v in tags.items()}
    if fn == "none_values":
        return lambda tags: {k: None for k in tags}
    if fn == "inplace_merge":
        c = dict(spec["arg"])

        def inplace(tags):
            tags.update(c)  # edits the dict it was given, returns it
            return tags
        return inplace
    raise KeyError(fn)


def make_fields_updater(spec):
    fn = spec["fn"]
    if fn == "merge_const":
        c = dict(spec["arg"])
        return lambda f: {**f, **c}
    if fn == "only_const":
        c = dict(spec["arg"])
        return lambda f: dict(c)
    if fn == "identity":
        return lambda f: f
    if fn == "empty":
        return lambda f: {}
    if fn == "scale":
        k, factor = spec["arg"]

        def scale(f):
            if k in f and f[k] is not None:
                return {**f, k: f[k] * factor}
            return f
        return scale
    if fn == "incr_all":
        return lambda f: {k: (v + 1 if v is not None else None)
                          for k, v in f.items()}
    if fn == "inplace_merge":
        c = dict(spec["arg"])

        def inplace(f):
            f.update(c)
            return f
        return inplace
    raise KeyError(fn)


UPDATER_MAKERS = {
    "time": make_time_updater, "measurement": make_measurement_updater,
    "tags": make_tags_updater, "fields": make_fields_updater,
}


def canon(obj):
    """Canonical JSON text (used for digests and distinct-counting)."""
    return json.dumps(obj, sort_keys=True, default=repr, ensure_ascii=True)
