"""Self-test: SimDisk against a real file system.

1. Conformance: fault-free seeded histories are executed on SimDisk and on a
   real tmpfs directory (RealDisk: same stack of CPython file objects, same
   step hooks, real files); API results, database bytes, directory listings
   and the step logs are diffed after every operation.
2. Real process death (C12): sampled (history, operation, step) crash points
   are repeated in a forked child that calls os._exit() at that step on the
   real directory; the bytes that survive must equal those SimDisk predicts.
"""

import copy
import functools
import os
import random
import shutil
import sys
import tempfile
import time

from . import gen, profiles, runner
from .realdisk import RealDisk
from .simdisk import DB_PATH
from .world import REWRITES, WRITES, World


def _scratch():
    base = "/dev/shm" if os.path.isdir("/dev/shm") else None
    return tempfile.mkdtemp(prefix="tfsim-conf-", dir=base)


def run_on(cfg, ops, prop, real_root=None, exit_on_crash=False):
    opts = {"trace_bytes": True}
    if real_root is not None:
        def factory(**kw):
            d = RealDisk(real_root, **kw)
            d.exit_on_crash = exit_on_crash
            return d
        opts["disk_factory"] = factory
    return runner.run_case(prop, cfg, ops, opts)


def conformance(n, props=("C04", "C15", "C16", "C12", "C02", "C03")):
    bad = 0
    total = 0
    ops_total = 0
    t0 = time.time()
    for prop in props:
        prof = profiles.get(prop)
        for seed in range(n):
            cfg, ops = gen.generate(seed, prof, prop)
            if cfg["storage"] != "csv":
                continue
            ops = [o for o in ops if not (o.get("op") == "reopen" and
                                          o.get("how") == "abandon")]
            a = run_on(cfg, ops, prop)
            root = _scratch()
            try:
                b = run_on(cfg, ops, prop, real_root=root)
            finally:
                shutil.rmtree(root, ignore_errors=True)
            total += 1
            ops_total += len(ops)
            msg = None
            if a.harness or b.harness:
                msg = "harness: %s | %s" % (a.harness, b.harness)
            elif a.violation != b.violation:
                msg = "verdict differs: %r vs %r" % (a.violation,
                                                     b.violation)
            else:
                wa, wb = a.world, b.world
                if wa.results != wb.results:
                    k = next(i for i, (x, y) in enumerate(
                        zip(wa.results, wb.results)) if x != y)
                    msg = "result of op %d differs: %r vs %r" % (
                        k, wa.results[k], wb.results[k])
                elif wa.bytes_trace != wb.bytes_trace:
                    k = next(i for i, (x, y) in enumerate(
                        zip(wa.bytes_trace, wb.bytes_trace)) if x != y)
                    msg = "bytes/listing after op %d differ: %r vs %r" % (
                        k, wa.bytes_trace[k], wb.bytes_trace[k])
                elif wa.op_steps != wb.op_steps:
                    k = next(i for i in wa.op_steps
                             if wa.op_steps[i] != wb.op_steps.get(i))
                    msg = "step log of op %d differs: sim %r real %r" % (
                        k, wa.op_steps[k], wb.op_steps.get(k))
            if msg:
                bad += 1
                if bad <= 5:
                    print("CONFORMANCE-DIFF property=%s seed=%d: %s"
                          % (prop, seed, msg[:1500]))
    print("conformance: %d histories (%d operations) on SimDisk and on a "
          "real directory, %d differ, %.1fs"
          % (total, ops_total, bad, time.time() - t0))
    return bad


def real_kill(n):
    """C12 crash points repeated with a really killed child process."""
    prof = profiles.get("C12")
    bad = 0
    done = 0
    t0 = time.time()
    for seed in range(n):
        cfg, ops = gen.generate(seed, prof, "C12")
        base = run_on(cfg, ops, "C12")
        if base.violation or base.harness or base.foreign:
            continue
        w = base.world
        rng = random.Random(seed)
        targets = [j for j, op in enumerate(ops) if op["op"] in WRITES
                   and any(s[3] for s in w.op_steps.get(j, ()))]
        if not targets:
            continue
        j = rng.choice(targets)
        steps = [s for s in w.op_steps[j] if s[3]]
        for s in rng.sample(steps, min(3, len(steps))):
            ops2 = [copy.deepcopy(o) for o in ops[:j + 1]]
            ops2[j]["faults"] = [{"step": s[0], "mode": "crash"}]
            # SimDisk prediction: bytes right after the crash
            sim = run_on(cfg, ops2, "__twin__")
            sim_bytes = sim.world.bytes_trace[j][0] if len(
                sim.world.bytes_trace) > j else None
            root = _scratch()
            try:
                pid = os.fork()
                if pid == 0:
                    try:
                        run_on(cfg, ops2, "__twin__", real_root=root,
                               exit_on_crash=True)
                    finally:
                        os._exit(0)
                _, status = os.waitpid(pid, 0)
                code = os.waitstatus_to_exitcode(status)
                real_path = root + "/db/data.csv"
                with open(real_path, "rb") as f:
                    real_bytes = f.read()
            finally:
                shutil.rmtree(root, ignore_errors=True)
            done += 1
            if code != 77:
                bad += 1
                print("REALKILL child did not die at the crash point "
                      "(seed %d op %d step %d, exit %d)" % (seed, j, s[0],
                                                            code))
            elif real_bytes != sim_bytes:
                bad += 1
                print("REALKILL-DIFF seed=%d op=%d step=%d (%s): real file "
                      "%r, SimDisk predicted %r" % (seed, j, s[0], s[1],
                                                    real_bytes[:200],
                                                    (sim_bytes or b"")[:200]))
    print("real-kill: %d crash points repeated with a killed child process, "
          "%d differ, %.1fs" % (done, bad, time.time() - t0))
    return bad


def main(tier):
    n = 40 if tier == "quick" else 600
    bad = conformance(n)
    bad += real_kill(n * 2)
    return 1 if bad else 0
