"""SimDisk: an in-memory POSIX-like file system with step log and fault plan.

Files handed to the code under test are real CPython
``TextIOWrapper(BufferedRandom(raw))`` stacks over a simulated raw layer, so
buffering, encoding and newline handling are real code, and every call that
would be a system call is a *step*: numbered, logged and able to fail.

Nothing in this module imports tinyflux.
"""

import errno
import io
import posixpath

ROOT = "/__tfsim__"
DB_DIR = ROOT + "/db"
TMP_DIR = ROOT + "/tmp"
DB_PATH = DB_DIR + "/data.csv"


class SimCrash(BaseException):
    """The simulated process dies here."""


class HarnessError(Exception):
    """Something is wrong with the harness (never a property violation)."""


class SeamEscape(HarnessError):
    """Code under test reached for an OS facility the simulator does not own."""


def sim_oserror(err, msg, path=None, injected=False):
    cls = OSError
    if err == errno.ENOENT:
        cls = FileNotFoundError
    elif err == errno.EEXIST:
        cls = FileExistsError
    elif err == errno.EACCES:
        cls = PermissionError
    e = cls(err, msg, path) if path is not None else cls(err, msg)
    e._sim = True
    e._injected = injected
    return e


class Inode:
    __slots__ = ("data", "mode", "ino")

    def __init__(self, ino, mode=0o644):
        self.data = bytearray()
        self.mode = mode
        self.ino = ino


# step kinds on which a pre-effect OSError may be injected
PRE_ELIGIBLE = frozenset(
    ["open", "read", "write", "truncate", "fsync", "unlink", "rename",
     "copy-open-src", "copy-open-dst", "copy-chunk", "chmod", "mktemp"]
)
# call-layer step kinds on which a post-effect OSError may be injected
POST_ELIGIBLE = frozenset(["flush", "fsync", "close"])


class Fault:
    """A fault addressed to (operation index, step ordinal inside it)."""

    __slots__ = ("op", "step", "mode", "err", "fired")

    def __init__(self, op, step, mode, err="EIO"):
        self.op = op
        self.step = step
        self.mode = mode  # 'crash' | 'pre' | 'post'
        self.err = err
        self.fired = None

    def to_json(self):
        return {"op": self.op, "step": self.step, "mode": self.mode,
                "err": self.err}

    @staticmethod
    def from_json(d):
        return Fault(d.get("op", -1), d["step"], d["mode"],
                     d.get("err", "EIO"))


class SimRaw(io.RawIOBase):
    """Simulated raw file (what FileIO is in the real stack)."""

    def __init__(self, disk, path, inode, readable, writable, append, fd):
        super().__init__()
        self.disk = disk
        self.path = path
        self.name = path
        self.inode = inode
        self._r = readable
        self._w = writable
        self._append = append
        self.pos = 0
        self.fd = fd
        self.dead = False  # process died: nothing reaches the kernel
        self.quiet = False  # garbage-collected: effects happen, no steps
        self.mode = "rb+" if (readable and writable) else (
            "rb" if readable else "wb")

    # -- capability -----------------------------------------------------
    def readable(self):
        return self._r

    def writable(self):
        return self._w

    def seekable(self):
        return True

    def fileno(self):
        return self.fd

    def isatty(self):
        return False

    def _step(self, kind, nbytes, mutating):
        if self.quiet:
            return None
        return self.disk.step(kind, self.path, nbytes, mutating)

    # -- I/O --------------------------------------------------------------
    def readinto(self, b):
        if self.dead:
            return 0
        if self.closed:
            raise ValueError("I/O operation on closed file")
        if not self._r:
            raise io.UnsupportedOperation("read")
        self._step("read", len(b), False)
        data = self.inode.data[self.pos:self.pos + len(b)]
        n = len(data)
        b[:n] = data
        self.pos += n
        return n

    def write(self, b):
        n = len(b)
        if self.dead:
            return n
        if self.closed:
            raise ValueError("I/O operation on closed file")
        if not self._w:
            raise io.UnsupportedOperation("write")
        self._step("write", n, n > 0)
        d = self.inode.data
        if self._append:
            self.pos = len(d)
        if self.pos > len(d):
            d.extend(b"\0" * (self.pos - len(d)))
        d[self.pos:self.pos + n] = bytes(b)
        self.pos += n
        return n

    def seek(self, offset, whence=0):
        if self.dead:
            return self.pos
        if self.closed:
            raise ValueError("I/O operation on closed file")
        self._step("lseek", 0, False)
        if whence == 0:
            new = offset
        elif whence == 1:
            new = self.pos + offset
        elif whence == 2:
            new = len(self.inode.data) + offset
        else:
            raise ValueError("bad whence")
        if new < 0:
            raise sim_oserror(errno.EINVAL, "Invalid argument")
        self.pos = new
        return new

    def tell(self):
        if self.dead:
            return self.pos
        if self.closed:
            raise ValueError("I/O operation on closed file")
        self._step("lseek", 0, False)
        return self.pos

    def truncate(self, size=None):
        if self.dead:
            return 0
        if self.closed:
            raise ValueError("I/O operation on closed file")
        if not self._w:
            raise io.UnsupportedOperation("truncate")
        if size is None:
            size = self.pos
        d = self.inode.data
        self._step("truncate", 0, size != len(d))
        if size < len(d):
            del d[size:]
        elif size > len(d):
            d.extend(b"\0" * (size - len(d)))
        return size

    def close(self):
        if self.closed:
            return
        if not self.dead:
            self._step("close", 0, False)
        self.disk.fds.pop(self.fd, None)
        super().close()

    def __del__(self):
        self.quiet = True
        try:
            super().__del__()
        except Exception:
            pass


class SimText(io.TextIOWrapper):
    """Text layer handed to the code under test.

    Identical to TextIOWrapper except that flush() and close() are
    call-layer steps (so that they can fail *after* having done their work)
    and that a garbage-collected object does its work silently.
    """

    def _sim_init(self, disk, raw, path, mode, delete):
        self._disk = disk
        self._raw = raw
        self._path = path
        self.mode = mode
        self._delete = delete

    _raw = None

    def flush(self):
        raw = self._raw
        if raw is None or raw.dead or raw.quiet or self.closed:
            return super().flush()
        n = self._disk.step("flush", self._path, 0, False)
        r = super().flush()
        self._disk.post(n)
        return r

    def close(self):
        if self.closed:
            return
        raw = self._raw
        if raw is None:
            return super().close()
        if raw.dead or raw.quiet:
            try:
                return super().close()
            finally:
                if self._delete:
                    self._disk._unlink_quiet(self._path)
        n = self._disk.step("close", self._path, 0, False)
        try:
            super().close()
        finally:
            if self._delete:
                self._disk.unlink(self._path, missing_ok=True)
        self._disk.post(n)

    def __del__(self):
        try:
            self._raw.quiet = True
        except Exception:
            pass
        try:
            super().__del__()
        except Exception:
            pass


class SimDisk:
    """The simulated kernel: files, descriptors, step log, fault plan."""

    def __init__(self, bufsize=8192, copy_chunk=0, locale_encoding="utf-8",
                 tmp_same_fs=False, text_chunk=None):
        self.files = {}  # path -> Inode
        self.dirs = {ROOT, DB_DIR, TMP_DIR}
        self.fds = {}  # fd -> SimRaw
        self.next_fd = 1000
        self.next_ino = 1
        self.next_tmp = 0
        self.bufsize = bufsize
        self.copy_chunk = copy_chunk  # 0 = whole file in one chunk
        self.locale_encoding = locale_encoding
        self.tmp_same_fs = tmp_same_fs
        self.text_chunk = text_chunk  # TextIOWrapper read/write chunk knob
        # step accounting
        self.seq = 0
        self.cur_op = -1
        self.op_step = 0
        self.log = []  # (seq, op, n, kind, role, nbytes, mutating)
        self.record = True
        # faults
        self.plan = {}  # op index -> {step ordinal -> Fault}
        self.armed = {}
        self.fired = []
        # incarnation bookkeeping
        self.live_raws = []
        self.step_cap = 3000000

    # -- accounting --------------------------------------------------------
    def role(self, path):
        if path == DB_PATH:
            return "primary"
        d = posixpath.dirname(path)
        if d == TMP_DIR:
            return "tmp:" + posixpath.basename(path)
        if d == DB_DIR:
            return "dbdir:" + posixpath.basename(path)
        return "other:" + path

    def begin_op(self, index):
        self.cur_op = index
        self.op_step = 0
        self.armed = self.plan.get(index, {})
        return len(self.log)

    def end_op(self):
        self.armed = {}

    def step(self, kind, path, nbytes, mutating):
        n = self.op_step
        self.op_step = n + 1
        self.seq += 1
        if self.seq > self.step_cap:
            raise HarnessError("step cap exceeded")
        if self.record:
            self.log.append(
                (self.seq, self.cur_op, n, kind, self.role(path), nbytes,
                 bool(mutating)))
        f = self.armed.get(n) if self.armed else None
        if f is not None and f.fired is None:
            if f.mode == "crash":
                f.fired = (kind, self.role(path))
                self.fired.append(f)
                self.kill()
                raise SimCrash()
            if f.mode == "pre" and kind in PRE_ELIGIBLE:
                f.fired = (kind, self.role(path))
                self.fired.append(f)
                err = errno.ENOSPC if f.err == "ENOSPC" else errno.EIO
                e = sim_oserror(err, "injected " + f.err, path, injected=True)
                self.last_injected = e
                raise e
        return n

    def post(self, n):
        """Called by a call-layer step after it has done its work."""
        f = self.armed.get(n) if self.armed else None
        if f is not None and f.fired is None and f.mode == "post":
            kind = "?"
            for rec in reversed(self.log):
                if rec[1] == self.cur_op and rec[2] == n:
                    kind = rec[3]
                    role = rec[4]
                    break
            else:
                role = "?"
            if kind in POST_ELIGIBLE:
                f.fired = (kind + "-post", role)
                self.fired.append(f)
                err = errno.ENOSPC if f.err == "ENOSPC" else errno.EIO
                e = sim_oserror(err, "injected post " + f.err, injected=True)
                self.last_injected = e
                raise e

    def kill(self):
        """Process death: user-space buffers are lost."""
        for r in self.live_raws:
            r.dead = True
        for r in self.live_raws:
            self.fds.pop(r.fd, None)
        self.live_raws = []

    # -- inspection (not steps) ---------------------------------------------
    def peek(self, path=DB_PATH):
        ino = self.files.get(path)
        return None if ino is None else bytes(ino.data)

    def poke(self, path, data):
        """Another program replaces the file's bytes (not a step)."""
        self.files[path].data[:] = data

    def listing(self):
        return tuple(sorted(p for p in self.files if p != DB_PATH))

    def exists(self, path):
        return path in self.files or path in self.dirs

    # -- namespace -----------------------------------------------------------
    def _new_inode(self, mode=0o644):
        ino = Inode(self.next_ino, mode)
        self.next_ino += 1
        return ino

    def _check_parent(self, path):
        d = posixpath.dirname(path)
        if d not in self.dirs:
            raise sim_oserror(errno.ENOENT, "No such file or directory", path)

    def _mk_stack(self, path, inode, mode, buffering, encoding, errors,
                  newline, delete=False):
        m = mode.replace("t", "").replace("b", "")
        binary = "b" in mode
        reading = m[0] == "r" or "+" in m
        writing = m[0] in "wax" or "+" in m
        fd = self.next_fd
        self.next_fd += 1
        raw = SimRaw(self, path, inode, reading, writing, m[0] == "a", fd)
        if m[0] == "a":
            raw.pos = len(inode.data)
        self.fds[fd] = raw
        self.live_raws.append(raw)
        bs = self.bufsize if buffering in (-1, None) or buffering <= 1 \
            else buffering
        if reading and writing:
            buf = io.BufferedRandom(raw, bs)
        elif writing:
            buf = io.BufferedWriter(raw, bs)
        else:
            buf = io.BufferedReader(raw, bs)
        if binary:
            return buf
        enc = encoding or self.locale_encoding
        text = SimText(buf, encoding=enc, errors=errors, newline=newline)
        if self.text_chunk:
            text._CHUNK_SIZE = self.text_chunk
        text._sim_init(self, raw, path, mode, delete)
        return text

    def open(self, path, mode="r", buffering=-1, encoding=None, errors=None,
             newline=None, closefd=True, opener=None):
        if isinstance(path, int):
            return self.fdopen(path, mode, buffering, encoding, errors,
                               newline)
        path = self._p(path)
        m = mode.replace("t", "").replace("b", "")
        if m not in ("r", "r+", "w", "w+", "a", "a+", "x", "x+"):
            raise ValueError("invalid mode: %r" % (mode,))
        if "b" in mode and encoding is not None:
            raise ValueError("binary mode doesn't take an encoding argument")
        inode = self.files.get(path)
        creating = m[0] in "wax"
        will_change = (inode is None and creating) or (
            inode is not None and m[0] == "w" and len(inode.data) > 0)
        self.step("open", path, 0, will_change)
        if path in self.dirs:
            raise sim_oserror(errno.EISDIR, "Is a directory", path)
        if inode is None:
            if not creating:
                raise sim_oserror(errno.ENOENT, "No such file or directory",
                                  path)
            self._check_parent(path)
            inode = self._new_inode()
            self.files[path] = inode
        elif m[0] == "x":
            raise sim_oserror(errno.EEXIST, "File exists", path)
        if m[0] == "w":
            del inode.data[:]
        return self._mk_stack(path, inode, mode, buffering, encoding, errors,
                              newline)

    def fdopen(self, fd, mode="r", buffering=-1, encoding=None, errors=None,
               newline=None):
        raw0 = self.fds.get(fd)
        if raw0 is None:
            raise sim_oserror(errno.EBADF, "Bad file descriptor")
        # re-wrap the description held by the placeholder raw
        self.fds.pop(fd, None)
        if raw0 in self.live_raws:
            self.live_raws.remove(raw0)
        return self._mk_stack(raw0.path, raw0.inode, mode, buffering,
                              encoding, errors, newline)

    def _p(self, path):
        import os as _os
        path = _os.fspath(path)
        if isinstance(path, bytes):
            path = path.decode()
        if not path.startswith(ROOT):
            raise SeamEscape("path outside the simulated disk: %r" % (path,))
        return posixpath.normpath(path)

    def _tmp_name(self, prefix, suffix, dir):
        d = self._p(dir) if dir else TMP_DIR
        if d not in self.dirs:
            raise sim_oserror(errno.ENOENT, "No such file or directory", d)
        while True:
            name = "%s/%s%06d%s" % (d, prefix or "tmp", self.next_tmp,
                                    suffix or "")
            self.next_tmp += 1
            if name not in self.files:
                return name

    def named_temporary_file(self, mode="w+b", buffering=-1, encoding=None,
                             newline=None, suffix=None, prefix=None,
                             dir=None, delete=True, *, errors=None,
                             delete_on_close=True):
        name = self._tmp_name(prefix, suffix, dir)
        self.step("mktemp", name, 0, True)
        inode = self._new_inode(0o600)
        self.files[name] = inode
        return self._mk_stack(name, inode, mode, buffering, encoding, errors,
                              newline, delete=bool(delete))

    def mkstemp(self, suffix=None, prefix=None, dir=None, text=False):
        name = self._tmp_name(prefix, suffix, dir)
        self.step("mktemp", name, 0, True)
        inode = self._new_inode(0o600)
        self.files[name] = inode
        fd = self.next_fd
        self.next_fd += 1
        raw = SimRaw(self, name, inode, True, True, False, fd)
        self.fds[fd] = raw
        self.live_raws.append(raw)
        return fd, name

    def unlink(self, path, missing_ok=False):
        path = self._p(path)
        self.step("unlink", path, 0, path in self.files)
        if path not in self.files:
            if missing_ok:
                return
            raise sim_oserror(errno.ENOENT, "No such file or directory", path)
        del self.files[path]

    def _unlink_quiet(self, path):
        self.files.pop(path, None)

    def _fs_of(self, path):
        d = posixpath.dirname(path)
        if d == TMP_DIR and not self.tmp_same_fs:
            return "tmpfs"
        return "rootfs"

    def rename(self, src, dst):
        src = self._p(src)
        dst = self._p(dst)
        self.step("rename", dst, 0, True)
        if src not in self.files:
            raise sim_oserror(errno.ENOENT, "No such file or directory", src)
        self._check_parent(dst)
        if self._fs_of(src) != self._fs_of(dst):
            raise sim_oserror(errno.EXDEV, "Invalid cross-device link", src)
        self.files[dst] = self.files.pop(src)

    def chmod(self, path, mode):
        path = self._p(path)
        self.step("chmod", path, 0, False)
        if path not in self.files:
            raise sim_oserror(errno.ENOENT, "No such file or directory", path)
        self.files[path].mode = mode

    def fsync(self, fd):
        if hasattr(fd, "fileno"):
            fd = fd.fileno()
        raw = self.fds.get(fd)
        if raw is None:
            raise sim_oserror(errno.EBADF, "Bad file descriptor")
        if raw.dead:
            return
        n = self.step("fsync", raw.path, 0, False)
        self.post(n)

    def copyfile(self, src, dst, with_mode=True):
        """shutil.copy as observed with strace: open, open(O_TRUNC),
        transfer in chunks, close, chmod."""
        src = self._p(src)
        dst = self._p(dst)
        if dst in self.dirs:
            dst = posixpath.join(dst, posixpath.basename(src))
        self.step("copy-open-src", src, 0, False)
        s = self.files.get(src)
        if s is None:
            raise sim_oserror(errno.ENOENT, "No such file or directory", src)
        if src == dst:
            import shutil as _sh
            raise _sh.SameFileError(
                "%r and %r are the same file" % (src, dst))
        d = self.files.get(dst)
        self.step("copy-open-dst", dst, 0,
                  d is None or len(d.data) > 0)
        if d is None:
            self._check_parent(dst)
            d = self._new_inode()
            self.files[dst] = d
        del d.data[:]
        data = bytes(s.data)
        chunk = self.copy_chunk or max(len(data), 1)
        for i in range(0, len(data), chunk):
            piece = data[i:i + chunk]
            self.step("copy-chunk", dst, len(piece), True)
            d.data.extend(piece)
        if with_mode:
            self.step("chmod", dst, 0, False)
            d.mode = s.mode
        return dst

    def makedirs(self, path, mode=0o777, exist_ok=False):
        path = self._p(path)
        if path in self.dirs:
            if exist_ok:
                return
            raise sim_oserror(errno.EEXIST, "File exists", path)
        parts = []
        p = path
        while p not in self.dirs and p not in ("/", ""):
            parts.append(p)
            p = posixpath.dirname(p)
        for q in reversed(parts):
            self.dirs.add(q)

    # -- plan ------------------------------------------------------------
    def set_plan(self, faults):
        self.plan = {}
        for f in faults:
            self.plan.setdefault(f.op, {})[f.step] = f
