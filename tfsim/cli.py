"""Command line: check / replay / selftest.

    python -m tfsim.cli check --property C01 --tier quick
    python -m tfsim.cli replay replays/C01-123.json

Exit status: 0 = the property held on everything explored; 1 = at least one
`VIOLATION property=<id> replay=<path>` line was printed; 2 = HARNESS-ERROR
(never turned into 0).
"""

import argparse
import concurrent.futures
import faulthandler
import json
import multiprocessing
import os
import subprocess
import sys
import time

HERE = os.path.dirname(os.path.dirname(os.path.abspath(__file__)))


def _reexec():
    if os.environ.get("VERIF_NO_REEXEC"):
        return
    if os.environ.get("PYTHONHASHSEED") != "0":
        env = dict(os.environ)
        env["PYTHONHASHSEED"] = "0"
        os.execve(sys.executable, [sys.executable, "-m", "tfsim.cli"] +
                  sys.argv[1:], env)


QUICK_RUNS = {
    "C01": 24000, "C02": 32000, "C03": 28000, "C04": 20000, "C05": 24000,
    "C06": 12000, "C07": 32000, "C08": 28000, "C10": 16000, "C11": 8000,
    "C12": 4000, "C13": 1200, "C14": 32000, "C15": 20000, "C16": 14000,
}

LEVEL = {
    "C11": "fault_enumeration", "C12": "fault_enumeration",
    "C13": "fault_enumeration",
}

RULES = {
    "C01": "seeded histories (swarm-configured) with query reads compared "
           "with the reference model on the live object and on a scan-forced "
           "instance; a case is non-trivial when a search matched a non-empty"
           " proper subset; distinct = distinct (query shape, #points, "
           "#matches, index valid?) tuples",
    "C02": "seeded histories, removal-heavy; return value and full "
           "post-state vs the model after every removal; non-trivial/"
           "distinct counting as for C01 on the reads that follow",
    "C03": "seeded histories, update-heavy, every subset of update "
           "arguments, static and callable",
    "C04": "seeded histories over CSV configurations (flush_on_insert x "
           "encoding x dialect x prefixes x locale x buffer size) with "
           "early-stopped reads; after every returned operation the bytes on "
           "the simulated disk are decoded by an independent decoder and "
           "compared with the model; at the end close + reopen",
    "C05": "seeded histories over hostile/reserved/wide alphabets and "
           "boundary numbers; every point read back at once, after rewrites "
           "and after close + reopen",
    "C06": "after every step of seeded histories (including operations that "
           "raise) a valid index is compared, answer by answer, with an "
           "index rebuilt from the stored points; distinct = distinct "
           "(abstract state, operation kind) pairs at which the comparison "
           "ran",
    "C07": "seeded histories with getter reads compared with the model on "
           "the live object and on a scan-forced instance; distinct = "
           "distinct (getter, filtered?, #points, index valid?, answer) "
           "tuples with a non-empty answer",
    "C08": "seeded histories under a TZ schedule and a clock with ties and "
           "backward steps; aware/offset/naive times around DST gaps and "
           "folds at microsecond granularity",
    "C10": "twin worlds from one seed: every handle-routed operation is "
           "replayed through the database-level API restricted to the "
           "measurement; results and contents compared step by step",
    "C11": "histories with invalid calls and failing collaborators, plus a "
           "sweep: a failure at every invocation index of every update "
           "callable; distinct = distinct (operation, collaborator, kind, "
           "invocation index) fault sites that fired",
    "C12": "sweep: process death at every mutating I/O step of write "
           "operations of sampled histories; distinct = distinct (operation,"
           " step kind, file role, outcome old/new, size) tuples",
    "C13": "sweep: OSError before every I/O call (and after flush/fsync/"
           "close) of operations of sampled histories, followed by reads, "
           "writes, close and reopen under the admissible-state-set model; "
           "distinct = distinct (operation, step kind, file role, mode, "
           "size) tuples",
    "C14": "histories with ill-typed values placed at every entry point and "
           "slot; type invariant on the stored points after every step",
    "C15": "bytes of the database file before/after every read and no-op "
           "write, directory listings before/after every operation; "
           "distinct = distinct (operation, file empty?, index valid?, "
           "outcome, access mode, buffered rows?) tuples",
    "C16": "step log of every insert: prefix property, no reads, no other "
           "inode, bytes written == growth, bounded steps per point; "
           "distinct = distinct (size, index valid?, suspended reader?, "
           "kind, generator?, in-order?) tuples",
}

ASSUMPTIONS = [
    "A1 crash = process death: bytes handed to a raw write survive; "
    "user-space buffers are lost; power loss is not modelled",
    "A2 one raw write is atomic w.r.t. process death, not short, and has no "
    "effect when it reports an error",
    "A3 generated rows are smaller than the I/O buffer",
    "A4 user callables are deterministic and, outside injected failures, "
    "total; stored/returned Point objects are not mutated by the caller",
    "A5 time range 1700..2240",
    "A6 CPython io/csv/datetime and the zoneinfo database are trusted",
    "a clean batch is evidence, not proof: the space is sampled",
]

# reach probes that a run of the property's check is expected to hit; one at
# zero means the workload or fault mix must change (it does not fail the
# property, it is reported)
REQUIRED_PROBES = {
    "C01": ["read-served-with-valid-index", "read-served-by-scan",
            "search-matched-proper-subset", "read-after-partial-remove",
            "read-after-remove_all-then-insert",
            "read-on-out-of-order-storage", "scan-instance-compared"],
    "C02": ["noop-write"],
    "C04": ["read-flushed-buffered-rows", "read-stopped-early",
            "suspended-reader-advanced", "fresh-reader-compared"],
    "C08": ["naive-time", "naive-time-in-fold", "time-in-named-zone",
            "time-with-utc-offset", "time-at-range-end", "time-less-point",
            "reopen-other-tz", "clock-back"],
    "C12": ["crash-in-swap-window", "crash-left-temp-file",
            "recovered-after-crash"],
    "C13": ["admissible-set-opened", "admissible-set-collapsed",
            "ioerror-injected"],
    "C15": ["write-in-readonly-mode", "noop-write",
            "file-rewritten-by-another-program", "ioerror-injected"],
    "C16": ["read-stopped-early", "suspended-reader-advanced",
            "ioerror-injected"],
}

COMPONENTS = {
    "real": ["tinyflux.database", "tinyflux.index", "tinyflux.measurement",
             "tinyflux.point", "tinyflux.queries", "tinyflux.storages",
             "tinyflux.utils", "io.TextIOWrapper/BufferedRandom", "csv",
             "codecs", "zoneinfo database via time.tzset"],
    "stub": ["kernel file system (SimDisk)", "shutil/tempfile/os calls",
             "wall clock (SimClock)", "user callables (catalogue)"],
}


def _worker(args):
    prop, tier, seeds, deadline = args
    faulthandler.enable()
    # a worker that hangs is killed (with a traceback) well after the batch
    # deadline; the parent turns that into a HARNESS-ERROR, never into exit 0
    limit = max(300.0, (deadline or time.time()) - time.time() + 240.0)
    faulthandler.dump_traceback_later(limit, exit=True)
    from . import runner
    return runner.run_seeds(prop, tier, seeds, deadline)


def run_batch(prop, tier, base, n_runs, deadline, workers):
    from . import runner
    agg = runner.Agg()
    ctx = multiprocessing.get_context("fork")
    chunks = [[base + i for i in range(w, n_runs, workers)]
              for w in range(workers)]
    chunks = [c for c in chunks if c]
    if workers == 1:
        agg.merge(runner.run_seeds(prop, tier, chunks[0], deadline))
        return agg
    with concurrent.futures.ProcessPoolExecutor(
            max_workers=workers, mp_context=ctx) as ex:
        futs = [ex.submit(_worker, (prop, tier, c, deadline))
                for c in chunks]
        for f in futs:
            try:
                agg.merge(f.result(timeout=max(120, (deadline or 0) -
                                               time.time() + 120)))
            except Exception as e:
                agg.harness.append((-1, "worker failed: %r" % (e,)))
    return agg


def write_replay(prop, seed, cfg, ops, vio, how, tag=""):
    os.makedirs(os.path.join(HERE, "replays"), exist_ok=True)
    path = os.path.join(HERE, "replays", "%s-%s%s.json" % (prop, seed, tag))
    with open(path, "w") as f:
        json.dump({"property": vio["property"], "oracle": vio["oracle"],
                   "message": vio["message"], "seed": seed,
                   "evaluate": how, "cfg": cfg, "ops": ops}, f, indent=1,
                  sort_keys=True, default=repr)
    return path


def replay_file(path, quiet=False):
    """Re-execute a replay file.  Returns (violation dict or None,
    harness)."""
    from . import runner
    with open(path) as f:
        rep = json.load(f)
    r = runner.evaluate(rep["property"], rep["cfg"], rep["ops"],
                        rep.get("evaluate"))
    if r.harness:
        if not quiet:
            print("HARNESS-ERROR %s" % r.harness)
        return None, r.harness
    v = r.violation
    if v is not None and (v["property"], v["oracle"]) == (
            rep["property"], rep["oracle"]):
        if not quiet:
            print("reproduced: %s/%s at op %d: %s"
                  % (v["property"], v["oracle"], v["op_index"],
                     v["message"]))
        return v, None
    if not quiet:
        print("not reproduced (got %r)" % (v,))
    return None, None


def fresh_replay(path):
    """Replay in a fresh interpreter; True if it fails there identically."""
    env = dict(os.environ)
    env["PYTHONHASHSEED"] = "0"
    p = subprocess.run([sys.executable, "-m", "tfsim.cli", "replay", path],
                       cwd=HERE, env=env, capture_output=True, text=True,
                       timeout=120)
    return p.returncode == 1 and "VIOLATION" in p.stdout


def load_known():
    path = os.path.join(HERE, "known_findings.json")
    if not os.path.exists(path):
        return []
    with open(path) as f:
        return json.load(f).get("findings", [])


def do_check(prop, tier, args):
    from . import known, runner
    t0 = time.time()
    seed = int(os.environ.get("VERIF_SEED", "0") or 0)
    # an explicit --tier wins; VERIF_TIER only fills in when none is given
    tier = tier or os.environ.get("VERIF_TIER") or "quick"
    workers = int(os.environ.get("VERIF_WORKERS", "0") or 0) or \
        min(16, os.cpu_count() or 1)
    base = seed * 1000003
    print("tfsim check property=%s tier=%s VERIF_SEED=%d base=%d workers=%d"
          % (prop, tier, seed, base, workers))
    sys.stdout.flush()
    violations = []
    known_lines = []
    # open known findings: dedicated probes
    findings = [k for k in load_known() if k["property"] == prop]
    for k in findings:
        if k.get("status") != "open":
            continue
        v, h = replay_file(os.path.join(HERE, k["replay"]), quiet=True)
        if v is not None:
            known_lines.append("KNOWN-FINDING: property=%s %s (%s)"
                               % (prop, k["what"], k["id"]))
    # regression corpus: minimised cases of defects that were fixed
    reg_dir = os.path.join(HERE, "regress", prop)
    reg_n = 0
    if os.path.isdir(reg_dir):
        for name in sorted(os.listdir(reg_dir)):
            if not name.endswith(".json"):
                continue
            reg_n += 1
            p = os.path.join(reg_dir, name)
            v, h = replay_file(p, quiet=True)
            if h:
                print("HARNESS-ERROR regress %s: %s" % (name, h))
                return 2
            if v is not None:
                violations.append((p, v))
    if tier == "quick":
        n_runs = int(args.runs or QUICK_RUNS.get(prop, 4000))
        n_runs = max(50, n_runs // int(os.environ.get("VERIF_RUNS_DIV", 1)))
        deadline = t0 + float(os.environ.get("VERIF_BUDGET_S", 240))
        agg = run_batch(prop, tier, base, n_runs, deadline, workers)
    else:
        budget = float(os.environ.get("VERIF_BUDGET_S", 600))
        deadline = t0 + budget
        agg = runner.Agg()
        round_n = max(workers * 4, QUICK_RUNS.get(prop, 4000) // 8)
        if prop in ("C12", "C13"):
            round_n = workers * 2  # every seed is a whole sweep
        nxt = base
        def fresh_failures():
            # failures of runs with the known-finding triggers switched on
            # are almost always the known findings: they must not end the
            # exploration
            return sum(1 for f in agg.failures if not f[1].get("triggers"))
        while time.time() < deadline - 5 and fresh_failures() < 10:
            a = run_batch(prop, tier, nxt, round_n, deadline, workers)
            agg.merge(a)
            nxt += round_n
            if agg.harness:
                break
    # triage failures: minimise distinct classes
    classes = {}
    for (s, cfg, ops, vio, how) in sorted(
            agg.failures,
            key=lambda x: (bool(x[1].get("triggers")), len(x[2]), x[0])):
        key = (vio["property"], vio["oracle"])
        classes.setdefault(key, []).append((s, cfg, ops, vio, how))
    from .minimise import minimise
    n_known = 0
    for key, items in sorted(classes.items()):
        # a class may mix a known finding with something new: look at
        # several members (runs without known triggers first) until one is
        # not attributable to a known finding
        for (s, cfg, ops, vio, how) in items[:6]:
            mcfg, mops, ntests = minimise(prop, cfg, ops, key, how,
                                          budget_s=25.0)
            r = runner.evaluate(prop, mcfg, mops, how)
            if r.violation is None:
                mcfg, mops = cfg, ops
                r = runner.evaluate(prop, mcfg, mops, how)
            if r.violation is None:
                agg.harness.append((s, "violation did not reproduce "
                                    "in-process"))
                break
            kf = known.match(findings, r.violation, mcfg, mops)
            if kf is not None:
                n_known += 1
                line = "KNOWN-FINDING: property=%s %s (%s)" % (
                    prop, kf["what"], kf["id"])
                if line not in known_lines:
                    known_lines.append(line)
                continue
            path = write_replay(prop, s, mcfg, mops, r.violation, how)
            if not fresh_replay(path):
                agg.harness.append((s, "replay %s did not reproduce in a "
                                    "fresh interpreter" % path))
                break
            violations.append((path, r.violation))
            break
    wall = time.time() - t0
    write_evidence(prop, tier, seed, agg, wall, len(violations), reg_n,
                   n_known, base)
    for line in known_lines:
        print(line)
    print("runs=%d cases=%d ops=%d steps=%d evals=%d distinct=%d foreign=%d "
          "wall=%.1fs" % (agg.runs, agg.cases, agg.ops, agg.steps, agg.evals,
                          len(agg.nontrivial), sum(agg.foreign.values()),
                          wall))
    for pr in REQUIRED_PROBES.get(prop, []):
        if not agg.probes.get(pr):
            print("  PROBE-AT-ZERO %s: %s (the workload never reached it)"
                  % (prop, pr))
    if agg.foreign:
        for k, v in sorted(agg.foreign.items(), key=lambda x: -x[1])[:5]:
            print("  note: %d runs ended early on a divergence owned by "
                  "another property: %s" % (v, k))
    for path, v in violations:
        print("  %s/%s: %s" % (v["property"], v["oracle"],
                               v["message"][:600]))
        print("VIOLATION property=%s replay=%s" % (prop, path))
    if agg.harness:
        for s, h in agg.harness[:5]:
            print("HARNESS-ERROR seed=%s %s" % (s, h))
        if not violations:
            return 2
    return 1 if violations else 0


def write_evidence(prop, tier, seed, agg, wall, n_viol, reg_n, n_known,
                   base):
    evdir = os.environ.get("VERIF_EVIDENCE_DIR") or os.path.join(HERE,
                                                                  "evidence")
    os.makedirs(evdir, exist_ok=True)
    faults = {k[6:]: v for k, v in agg.stats.items()
              if k.startswith("fault:")}
    opsk = {k[3:]: v for k, v in agg.stats.items() if k.startswith("op:")}
    evals = max(agg.evals, 0)
    ev = {
        "property_id": prop, "tier": tier, "seed": seed,
        "level": LEVEL.get(prop, "exploration"),
        "coverage": {
            "evaluations": int(evals),
            "distinct_nontrivial": len(agg.nontrivial),
            "rule": RULES.get(prop, ""),
            "samples": agg.samples[:3] or [{"note": "no run completed"}],
            "seed_base": base,
            "seeds": agg.runs,
            "simulated_runs": agg.cases,
            "runs_per_hour": int(agg.cases / wall * 3600) if wall > 0 else 0,
            "seeds_per_hour": int(agg.runs / wall * 3600) if wall > 0 else 0,
            "operations": agg.ops,
            "raw_io_steps": agg.steps,
            "simulated_time_covered_s": agg.sim_us / 1e6,
            "faults_fired": faults,
            "operation_kinds": opsk,
            "reach_probes": agg.probes,
            "distinct_abstract_state_op_pairs": len(agg.states),
            "distinct_op_trigrams": len(agg.trigrams),
            "distinct_fault_sites": len(agg.fault_sites),
            "runs_cut_short_by_foreign_divergence": sum(
                agg.foreign.values()),
            "insert_steps_per_point_by_size": {
                str(k): v for k, v in sorted(agg.sizes.items())},
            "probes_at_zero": [p for p in REQUIRED_PROBES.get(prop, [])
                               if not agg.probes.get(p)],
            "regression_replays": reg_n,
            "known_finding_hits": n_known,
            "components": COMPONENTS,
            "exhaustive": False,
        },
        "assumptions": ASSUMPTIONS,
        "wall_s": round(wall, 2),
        "violations": n_viol,
    }
    path = os.path.join(evdir, "%s.json" % prop)
    with open(path, "w") as f:
        json.dump(ev, f, indent=1, sort_keys=True, default=repr)


def main():
    _reexec()
    sys.path.insert(0, HERE)
    ap = argparse.ArgumentParser(prog="tfsim")
    sub = ap.add_subparsers(dest="cmd")
    c = sub.add_parser("check")
    c.add_argument("--property", required=True)
    c.add_argument("--tier", default=None, choices=["quick", "thorough"])
    c.add_argument("--runs", default=None)
    r = sub.add_parser("replay")
    r.add_argument("path")
    d = sub.add_parser("digests")
    d.add_argument("--property", required=True)
    d.add_argument("--n", type=int, default=50)
    d.add_argument("--base", type=int, default=0)
    s = sub.add_parser("selftest")
    s.add_argument("which")
    s.add_argument("--tier", default="quick")
    a = ap.parse_args()
    if a.cmd == "check":
        sys.exit(do_check(a.property, a.tier, a))
    if a.cmd == "replay":
        v, h = replay_file(a.path)
        if h:
            sys.exit(2)
        if v is not None:
            print("VIOLATION property=%s replay=%s" % (v["property"], a.path))
            sys.exit(1)
        sys.exit(0)
    if a.cmd == "digests":
        from . import selftest
        print(json.dumps(selftest.digests(a.property, a.n, a.base)))
        sys.exit(0)
    if a.cmd == "selftest":
        from . import selftest
        sys.exit(selftest.main(a.which, a.tier))
    ap.print_help()
    sys.exit(2)


if __name__ == "__main__":
    main()
