"""The simulated world: SimDisk + SimClock + environment + reference model +
one live TinyFlux incarnation, and the step loop with its oracles.

`World(cfg, prop).run(ops)` executes a concrete, JSON-serialisable operation
list against the real tinyflux package and raises `Violation` at the first
failed oracle owned by `prop`.  Divergences owned by other properties end the
run silently (`self.foreign` is set): a check only speaks about its own
property.
"""

import contextlib
import csv
import hashlib
import io
import math
import os

from . import catalog, queryast
from .catalog import (Collab, CollabError, CollabInterrupt, UTC,
                      time_from_json)
from .csvdecode import DecodeError, decode_bytes
from .model import MPoint, Model, eval_query
from .seams import Seams, SimClock, set_tz
from .simdisk import (DB_PATH, Fault, HarnessError, SeamEscape, SimCrash,
                      SimDisk, ROOT)

DIALECTS = {
    "default": {},
    "semicolon_all": {"delimiter": ";", "quoting": csv.QUOTE_ALL},
    "tab": {"delimiter": "\t"},
    "pipe_sq": {"delimiter": "|", "quotechar": "'"},
    "lf": {"lineterminator": "\n"},
}

DEFAULT_CFG = {
    "storage": "csv", "auto_index": True, "flush_on_insert": True,
    "encoding": None, "dialect": "default", "bufsize": 8192,
    "copy_chunk": 0, "locale": "utf-8", "tz": "UTC", "access_mode": "r+",
    "tmp_same_fs": False, "triggers": False, "text_chunk": None,
    "path_kind": "str",
}

QUERY_READS = ("search", "count", "contains", "get", "select")
GETTERS = ("get_measurements", "get_tag_keys", "get_tag_values",
           "get_field_keys", "get_field_values", "get_timestamps", "len",
           "all", "iter")
READS = QUERY_READS + GETTERS + ("reindex", "index_valid", "iter_suspend",
                                 "iter_resume")
INSERTS = ("insert", "insert_multiple")
REWRITES = ("update", "update_all", "remove", "remove_all", "drop")
WRITES = INSERTS + REWRITES


class Violation(Exception):
    def __init__(self, prop, oracle, msg, op_index):
        super().__init__("%s/%s at op %d: %s" % (prop, oracle, op_index, msg))
        self.prop = prop
        self.oracle = oracle
        self.msg = msg
        self.op_index = op_index


class Foreign(Exception):
    """A divergence that belongs to another property: the run ends here."""

    def __init__(self, owners, oracle, msg, op_index):
        super().__init__("foreign %s %s at op %d: %s"
                         % (sorted(owners), oracle, op_index, msg))
        self.owners = owners
        self.oracle = oracle
        self.msg = msg
        self.op_index = op_index


# ------------------------------------------------------------------ helpers
def unjson(v):
    """Decode tagged JSON values (ill-typed test data)."""
    if isinstance(v, dict):
        if "$tfsim$" in v:
            t = v["$tfsim$"]
            if t == "bytes":
                return v["v"].encode()
            if t == "pairs":
                return {unjson(k): unjson(x) for k, x in v["v"]}
            if t == "tuple":
                return tuple(unjson(x) for x in v["v"])
            if t == "set":
                return set(unjson(x) for x in v["v"])
            if t == "time":
                return time_from_json(v["v"])
            if t == "object":
                return object()
            raise ValueError(t)
        return {k: unjson(x) for k, x in v.items()}
    if isinstance(v, list):
        return [unjson(x) for x in v]
    return v


def _valid_mapping(v, value_ok):
    import collections.abc
    if not isinstance(v, collections.abc.Mapping):
        return False
    return all(isinstance(k, str) for k in v) and all(
        value_ok(x) for x in v.values())


def spec_invalid(spec):
    """Documented argument rules of update()/update_all(): True if the call
    must be rejected before anything is written (decided from the arguments
    alone, so it stays true under minimisation)."""
    import collections.abc
    import datetime as _dt
    given = 0
    for name in ("time", "measurement", "tags", "fields"):
        if name not in spec:
            continue
        s = spec[name]
        if "static" not in s:
            given += 1
            continue
        v = s["static"]
        if name == "time" and isinstance(v, dict) and "iso" in v:
            v = time_from_json(v)
        else:
            v = unjson(v)
        if not v:
            continue  # falsy means "argument absent"
        given += 1
        if name == "time" and not isinstance(v, _dt.datetime):
            return True
        if name == "measurement" and not isinstance(v, str):
            return True
        if name == "tags" and not _valid_mapping(
                v, lambda x: x is None or isinstance(x, str)):
            return True
        if name == "fields" and not _valid_mapping(
                v, lambda x: x is None or (not isinstance(x, bool) and
                                           isinstance(x, (int, float)))):
            return True
    for name in ("unset_tags", "unset_fields"):
        if name not in spec:
            continue
        v = unjson(spec[name])
        if not v:
            continue
        given += 1
        if isinstance(v, str):
            continue
        if not isinstance(v, collections.abc.Iterable) or not all(
                isinstance(x, str) for x in v):
            return True
    return given == 0


def unencodable(p, enc):
    """True if the point holds text the file's encoding cannot represent
    (storing it must fail with a UnicodeError and change nothing)."""
    def bad(x):
        if not isinstance(x, str):
            return False
        try:
            x.encode(enc)
            return False
        except UnicodeError:
            return True
    return bad(p.m) or any(bad(k) or bad(v) for k, v in p.tags.items()) or \
        any(bad(k) for k in p.fields)


def select_keys_invalid(keys):
    keys = unjson(keys)
    if isinstance(keys, str):
        keys = [keys]
    try:
        keys = list(keys)
    except TypeError:
        return True
    for k in keys:
        if not isinstance(k, str):
            return True
        if k in ("time", "measurement"):
            continue
        if k.startswith("tags.") and len(k) > 5:
            continue
        if k.startswith("fields.") and len(k) > 7:
            continue
        return True
    return False


def well_typed(p):
    """Type invariant of C14 on a model-shaped point."""
    import datetime as _dt
    if not isinstance(p.t, _dt.datetime):
        return "time is %r" % (type(p.t).__name__,)
    if not isinstance(p.m, str):
        return "measurement is %r" % (type(p.m).__name__,)
    for k, v in p.tags.items():
        if not isinstance(k, str):
            return "tag key %r" % (k,)
        if v is not None and not isinstance(v, str):
            return "tag value %r for key %r" % (v, k)
    for k, v in p.fields.items():
        if not isinstance(k, str):
            return "field key %r" % (k,)
        if v is None:
            continue
        if isinstance(v, bool) or not isinstance(v, (int, float)):
            return "field value %r for key %r" % (v, k)
    return None


def time_ok(t):
    """An aware *UTC* datetime: offset zero as a property of the tzinfo
    itself, not of this particular instant in some other zone."""
    import datetime as _dt
    if t is None or t.tzinfo is None:
        return False
    try:
        return t.utcoffset() == _dt.timedelta(0) and \
            t.tzinfo.utcoffset(None) == _dt.timedelta(0)
    except Exception:
        return False


def diff_points(actual, expected, strict_zero=False):
    """Compare two lists of MPoint-shaped objects.  None, or (class, msg)."""
    if len(actual) != len(expected):
        return ("count", "%d points stored, model has %d; stored=%r model=%r"
                % (len(actual), len(expected), actual[:6], expected[:6]))
    for i, (a, e) in enumerate(zip(actual, expected)):
        if not time_ok(a.t):
            return ("time", "point %d: time %r is not an aware UTC datetime"
                    % (i, a.t))
        if a.t != e.t:
            cls = "time"
            # a permutation shows up as a time mismatch first: classify
            if sorted(map(_pkey, actual)) == sorted(map(_pkey, expected)):
                cls = "order"
            return (cls, "point %d: time %s, model %s" % (
                i, a.t.isoformat(), e.t.isoformat()))
        if a.m != e.m:
            return ("measurement", "point %d: measurement %r, model %r"
                    % (i, a.m, e.m))
        if a.tags != e.tags:
            return ("tags", "point %d: tags %r, model %r"
                    % (i, a.tags, e.tags))
        if a.fields != e.fields:
            return ("fields", "point %d: fields %r, model %r"
                    % (i, a.fields, e.fields))
        if strict_zero and not e.touched:
            for k, ev in e.fields.items():
                av = a.fields[k]
                if isinstance(ev, float) and ev == 0 and \
                        math.copysign(1, ev) != math.copysign(1, float(av)):
                    return ("fields", "point %d: field %r lost the sign of "
                            "zero (%r, model %r)" % (i, k, av, ev))
    return None


def _pkey(p):
    return (p.t.isoformat() if p.t is not None else "", p.m,
            catalog.canon(p.tags), catalog.canon(p.fields))


def to_mpoint(p):
    """tinyflux Point -> model-shaped point (copies the dicts)."""
    return MPoint(p.time, p.measurement, dict(p.tags), dict(p.fields))


def canon_value(v):
    """Canonical, address-free text of an operation result (for digests)."""
    import datetime as _dt
    if isinstance(v, MPoint):
        return ["P", v.t.isoformat() if v.t is not None else None, v.m,
                sorted((k, canon_value(x)) for k, x in v.tags.items()),
                sorted((k, canon_value(x)) for k, x in v.fields.items())]
    if isinstance(v, _dt.datetime):
        return ["T", v.isoformat()]
    if isinstance(v, (list, tuple)):
        return [canon_value(x) for x in v]
    if isinstance(v, dict):
        return sorted((repr(k), canon_value(x)) for k, x in v.items())
    if isinstance(v, float):
        return ["F", repr(v)]
    if isinstance(v, int) and not isinstance(v, bool):
        # 10 and 10.0 are the same stored value (CSV returns the float, the
        # index the inserted int): one canonical form for both
        try:
            f = float(v)
            if f == v:
                return ["F", repr(f)]
        except OverflowError:
            pass
        return v
    if isinstance(v, BaseException):
        return ["E", type(v).__name__]
    if v is None or isinstance(v, (str, bool)):
        return v
    return ["R", type(v).__name__]


class Outcome:
    __slots__ = ("kind", "value", "exc")

    def __init__(self, kind, value=None, exc=None):
        self.kind = kind  # 'ret' | 'exc' | 'crash'
        self.value = value
        self.exc = exc

    def canon(self):
        if self.kind == "ret":
            return ["ret", canon_value(self.value)]
        if self.kind == "exc":
            return ["exc", type(self.exc).__name__]
        return ["crash"]


def exc_chain(e):
    seen = []
    while e is not None and e not in seen:
        seen.append(e)
        e = e.__cause__ or e.__context__
    return seen


# ------------------------------------------------------------------ world
class World:
    def __init__(self, cfg, prop, tf, opts=None):
        self.cfg = dict(DEFAULT_CFG)
        self.cfg.update(cfg)
        self.prop = prop
        self.tf = tf
        self.opts = opts or {}
        c = self.cfg
        mk = self.opts.get("disk_factory") or SimDisk
        self.disk = mk(bufsize=c["bufsize"], copy_chunk=c["copy_chunk"],
                       locale_encoding=c["locale"],
                       tmp_same_fs=c["tmp_same_fs"],
                       text_chunk=c["text_chunk"])
        self.bytes_trace = []
        self.clock = SimClock()
        self.seams = Seams()
        self.model = Model(csv_numbers=(c["storage"] == "csv"))
        self.db = None
        self.handles = {}
        self.suspended = None
        self.mode = c["access_mode"]
        self.auto_index = c["auto_index"]
        self.tz = c["tz"]
        self.pending = 0  # rows possibly still in a user-space buffer
        self.csv = c["storage"] == "csv"
        self.dialect = DIALECTS[c["dialect"]]
        self.encoding = c["encoding"] or c["locale"]
        self.stats = {}
        self.probes = {}
        self.states = set()
        self.trigrams = set()
        self.fault_sites = set()
        self.sizes = {}  # C16: db size -> max steps per inserted point
        self.results = []  # canonical outcomes, per op (twin comparison)
        self.digest = hashlib.sha256()
        self.foreign = None
        self.op_kinds = []
        self.insert_bound = None
        self.admissible = None  # C13: list of Model after an I/O fault
        self.booted = False
        self.closed = False
        self.last_ops = []
        self.evals = 0
        self.nontrivial = set()
        self.op_steps = {}
        self.index_drifted = False
        self.control_plan = {}  # op index -> what the faulted op amounted to
        self.had_partial_remove = False
        self.had_reset_then_insert = False
        self._was_reset = False
        self.soft_foreign = 0
        self.state_trace = {}
        self.faulted = False
        self.final_points = None

    # -- small utilities ----------------------------------------------------
    def count(self, key, n=1):
        self.stats[key] = self.stats.get(key, 0) + n

    def probe(self, key, n=1):
        self.probes[key] = self.probes.get(key, 0) + n

    def owns(self, owners):
        return self.prop in owners

    def fail(self, owners, oracle, msg, i, desync=False):
        """An oracle failed: a violation if it is ours.  If it belongs to
        another property the run goes on, unless the model is now out of
        step with the implementation (`desync`): then the run ends."""
        if self.prop in owners:
            raise Violation(self.prop, oracle, msg, i)
        if desync:
            raise Foreign(owners, oracle, msg, i)
        self.count("foreign-soft:" + oracle.split(":")[0])
        self.soft_foreign += 1

    def fail_hard(self, owners, oracle, msg, i):
        self.fail(owners, oracle, msg, i, desync=True)

    # -- lifecycle ------------------------------------------------------------
    def install(self):
        self.seams.install(self.disk, self.clock)

    def uninstall(self):
        self.seams.uninstall()

    def boot(self, first=False):
        tf = self.tf
        set_tz(self.tz)
        self.handles = {}
        self.suspended = None
        if self.csv:
            kw = dict(self.dialect)
            path = DB_PATH
            if self.cfg.get("path_kind") == "pathlib":
                import pathlib
                path = pathlib.PurePosixPath(DB_PATH)
            self.db = tf.TinyFlux(
                path, auto_index=self.auto_index, access_mode=self.mode,
                encoding=self.cfg["encoding"],
                flush_on_insert=self.cfg["flush_on_insert"], **kw)
        else:
            self.db = tf.TinyFlux(storage=tf.storages.MemoryStorage,
                                  auto_index=self.auto_index)
        self.pending = 0
        self.closed = False
        self.booted = True

    def external_rewrite(self, style):
        """Another program rewrites the (closed) database file in an
        equivalent but non-canonical form: every cell quoted, LF row ends."""
        data = self.disk.peek(DB_PATH)
        if not data:
            return
        text = data.decode(self.encoding)
        rows = list(csv.reader(io.StringIO(text, newline=""),
                               **self.dialect))
        kw = dict(self.dialect)
        kw["quoting"] = csv.QUOTE_ALL
        if style == "lf_quoted":
            kw["lineterminator"] = "\n"
        out = io.StringIO(newline="")
        csv.writer(out, **kw).writerows(rows)
        new = out.getvalue().encode(self.encoding)
        # only if the csv module reads it back identically
        back = list(csv.reader(io.StringIO(new.decode(self.encoding),
                                           newline=""), **self.dialect))
        if back != rows:
            return
        self.disk.poke(DB_PATH, new)
        self.probe("file-rewritten-by-another-program")

    def can(self, what):
        if not self.csv:
            return True
        m = self.mode
        if what == "read":
            return m in ("r+", "r", "w+", "a+")
        if what == "append":
            return m in ("r+", "w", "w+", "a", "a+")
        if what == "write":
            return m in ("r+", "w", "w+")
        raise ValueError(what)

    # -- observation (never a step, never through the live object) -------------
    def observe(self, lenient=False):
        """Current stored points as MPoint list, or DecodeError."""
        if self.csv:
            data = self.disk.peek(DB_PATH)
            if data is None:
                raise DecodeError("database file does not exist")
            return decode_bytes(data, self.encoding, self.dialect,
                                lenient_tail=lenient)
        return [to_mpoint(p) for p in self.db.storage]

    @contextlib.contextmanager
    def observer(self):
        """Run harness-side reads on the simulated disk without recording
        steps and without faults."""
        d = self.disk
        saved = (d.record, d.armed, d.op_step, d.seq)
        d.record = False
        d.armed = {}
        try:
            yield
        finally:
            d.record, d.armed, d.op_step, d.seq = saved

    def fresh_reader(self, auto_index=False):
        tf = self.tf
        kw = dict(self.dialect)
        return tf.TinyFlux(DB_PATH, auto_index=auto_index, access_mode="r",
                           encoding=self.cfg["encoding"], **kw)

    def scan_instance(self):
        """An instance over the same contents that must answer by scanning."""
        tf = self.tf
        if self.csv:
            return self.fresh_reader(auto_index=False)
        db = tf.TinyFlux(storage=tf.storages.MemoryStorage, auto_index=False)
        import copy
        for p in self.db.storage:
            db.storage.append([copy.deepcopy(p)])
        db.index.invalidate()
        return db

    # -- building arguments ---------------------------------------------------
    def mk_point(self, pt):
        tf = self.tf
        if pt.get("raw") is not None:
            return unjson(pt["raw"])  # a non-Point element
        kw = {}
        if pt.get("time") is not None:
            kw["time"] = time_from_json(pt["time"])
        if pt.get("m") is not None:
            kw["measurement"] = pt["m"]
        if pt.get("tags") is not None:
            kw["tags"] = dict(pt["tags"])
        if pt.get("fields") is not None:
            kw["fields"] = dict(pt["fields"])
        if pt.get("ctor") == "empty" or not kw:
            p = tf.Point()
            for k, v in kw.items():
                setattr(p, k, v)
        else:
            p = tf.Point(**kw)
        mut = pt.get("mutate")
        if mut:
            # the caller mutates the dict it got back from the property
            slot, key, val = mut["slot"], unjson(mut["key"]), unjson(mut["v"])
            (p.tags if slot == "tags" else p.fields)[key] = val
        return p

    def mk_query(self, q, wrap=None):
        if isinstance(q, dict) and "bad" in q:
            return unjson(q["bad"])
        return queryast.compile_query(q, self.tf, wrap)

    def mk_update_kwargs(self, spec, cf):
        """spec JSON -> kwargs for update(); cf = collaborator fault."""
        kw = {}
        self.collabs = {}
        for name in ("time", "measurement", "tags", "fields"):
            if name not in spec:
                continue
            s = spec[name]
            if "static" in s:
                v = s["static"]
                if name == "time":
                    v = time_from_json(v) if isinstance(v, dict) and \
                        "iso" in v else unjson(v)
                else:
                    v = unjson(v)
                kw[name] = v
            else:
                fn = catalog.UPDATER_MAKERS[name](s)
                c = Collab(name + ":" + s["fn"], fn)
                if cf and cf.get("which") == name:
                    if cf["kind"] in ("raise", "interrupt", "boolify"):
                        c.fault = (cf["n"], cf["kind"])
                    else:
                        c.fault = (cf["n"], ("ret", unjson(cf["value"])))
                self.collabs[name] = c
                kw[name] = c
        if "unset_tags" in spec:
            kw["unset_tags"] = unjson(spec["unset_tags"])
        if "unset_fields" in spec:
            kw["unset_fields"] = unjson(spec["unset_fields"])
        return kw

    def handle(self, op):
        name = op["m"]
        if op.get("hmode") == "cached" and name in self.handles:
            self.probe("handle-cached")
            return self.handles[name]
        h = self.db.measurement(name)
        self.handles[name] = h
        return h

    # -- executing one operation against tinyflux ------------------------------
    def execute(self, i, op):
        buf = io.StringIO()
        try:
            with contextlib.redirect_stdout(buf):
                v = self._exec(i, op)
            return Outcome("ret", v)
        except SimCrash:
            return Outcome("crash")
        except CollabInterrupt as e:
            return Outcome("exc", exc=e)
        except (HarnessError, AssertionError) as e:
            if isinstance(e, AssertionError) and not _from_harness(e):
                return Outcome("exc", exc=e)
            raise
        except Exception as e:
            if isinstance(e, OSError) and not getattr(e, "_sim", False) \
                    and ROOT in str(e):
                raise SeamEscape("real OS error on a simulated path: %r"
                                 % (e,)) from e
            return Outcome("exc", exc=e)

    def _qwrap(self, op):
        cf = op.get("cfault")
        if not cf or cf.get("which") not in ("qtest", "qmap"):
            return None
        self.collabs = {}
        want = "test:" if cf["which"] == "qtest" else "map:"

        def wrap(name, fn):
            if not name.startswith(want) or "q" in self.collabs:
                return fn
            c = Collab(name, fn)
            c.fault = (cf["n"], "raise")
            self.collabs["q"] = c
            return c
        return wrap

    def _exec(self, i, op):
        k = op["op"]
        db = self.db
        tf = self.tf
        via_h = op.get("via") == "h"
        m = op.get("m")
        tgt = self.handle(op) if via_h else db
        margs = {} if via_h or m is None else {"measurement": m}

        if k == "insert":
            p = self.mk_point(op["pt"])
            if via_h:
                return tgt.insert(p)
            kw = dict(margs)
            if op.get("compact"):
                kw["compact_key_prefixes"] = True
            return db.insert(p, **kw)
        if k == "insert_multiple":
            pts = [self.mk_point(pt) for pt in op["pts"]]
            poison = op.get("poison")
            if op.get("gen") or (poison and poison["kind"] == "raise"):
                src = _gen_points(pts, poison)
            else:
                src = pts
            if via_h:
                return tgt.insert_multiple(src)
            kw = dict(margs)
            if op.get("compact"):
                kw["compact_key_prefixes"] = True
            return db.insert_multiple(src, **kw)
        if k in ("update", "update_all"):
            kw = self.mk_update_kwargs(op["spec"], op.get("cfault"))
            if k == "update":
                q = self.mk_query(op["q"], self._qwrap(op))
                if via_h:
                    return tgt.update(q, **kw)
                if m is not None:
                    kw["_measurement"] = m
                return db.update(q, **kw)
            if via_h:
                return tgt.update_all(**kw)
            return db.update_all(**kw)
        if k == "remove":
            q = self.mk_query(op["q"], self._qwrap(op))
            if via_h:
                return tgt.remove(q)
            return db.remove(q, **margs)
        if k == "remove_all":
            if via_h:
                return tgt.remove_all()
            return db.remove_all()
        if k == "drop":
            return db.drop_measurement(op["name"])
        if k in QUERY_READS:
            q = self.mk_query(op["q"], self._qwrap(op))
            if k == "search":
                if via_h:
                    r = tgt.search(q, sorted=op.get("sorted", True))
                else:
                    r = db.search(q, sorted=op.get("sorted", True), **margs)
                return [to_mpoint(p) for p in r]
            if k == "count":
                return tgt.count(q) if via_h else db.count(q, **margs)
            if k == "contains":
                return tgt.contains(q) if via_h else db.contains(q, **margs)
            if k == "get":
                r = tgt.get(q) if via_h else db.get(q, **margs)
                return None if r is None else to_mpoint(r)
            if k == "select":
                keys = unjson(op["keys"])
                return tgt.select(keys, q) if via_h else \
                    db.select(keys, q, **margs)
        if k == "get_measurements":
            return db.get_measurements()
        if k == "get_tag_keys":
            return tgt.get_tag_keys() if via_h else db.get_tag_keys(**margs)
        if k == "get_field_keys":
            return tgt.get_field_keys() if via_h else \
                db.get_field_keys(**margs)
        if k == "get_tag_values":
            keys = list(op.get("keys") or [])
            if via_h:
                return tgt.get_tag_values(keys) if keys else \
                    tgt.get_tag_values()
            if keys:
                return db.get_tag_values(keys, **margs)
            return db.get_tag_values(**margs)
        if k == "get_field_values":
            return tgt.get_field_values(op["key"]) if via_h else \
                db.get_field_values(op["key"], **margs)
        if k == "get_timestamps":
            return tgt.get_timestamps() if via_h else \
                db.get_timestamps(**margs)
        if op.get("_restrict"):
            # C10 twin: database-level read restricted to measurement m
            pts = [to_mpoint(p) for p in db.all(sorted=(
                k == "all" and op.get("sorted", True)))
                if p.measurement == m]
            if k == "len":
                return len(pts)
            if k == "iter" and op.get("take") is not None:
                return pts[:op["take"]]
            return pts
        if k == "len":
            return len(tgt)
        if k == "all":
            r = tgt.all(sorted=op.get("sorted", True))
            return [to_mpoint(p) for p in r]
        if k == "iter":
            out = []
            it = iter(tgt)
            take = op.get("take")
            for p in it:
                if take is not None and len(out) >= take:
                    break
                out.append(to_mpoint(p))
            if take is not None:
                self.probe("read-stopped-early")
            return out
        if k == "iter_suspend":
            it = iter(db)
            out = []
            for _ in range(op.get("take", 1)):
                try:
                    out.append(to_mpoint(next(it)))
                except StopIteration:
                    break
            self.suspended = it
            return out
        if k == "iter_resume":
            it = self.suspended
            if it is None:
                return None
            n = 0
            for _ in range(op.get("take", 1)):
                try:
                    next(it)
                    n += 1
                except StopIteration:
                    self.suspended = None
                    break
            self.probe("suspended-reader-advanced")
            return None
        if k == "reindex":
            return db.reindex()
        if k == "index_valid":
            return db.index.valid
        if k == "bad_point":
            slot, val = op["slot"], unjson(op["value"])
            if op.get("how") == "assign":
                p = tf.Point()
                setattr(p, slot, val)
            else:
                tf.Point(**{slot: val})
            return None
        if k == "reopen" and not self.csv:
            # memory storage has a single incarnation; as the twin of a CSV
            # world it mimics what a reopen does to the index: a new object
            # over the same points, index invalid until rebuilt
            if not self.opts.get("emulate_reopen"):
                return None
            import copy
            c = op.get("cfg") or {}
            self.auto_index = c.get("auto_index", self.auto_index)
            pts = [copy.deepcopy(p) for p in db.storage]
            if c.get("access_mode") in ("w", "w+"):
                pts = []
            if c.get("tz") and c["tz"] != self.tz:
                self.tz = c["tz"]
                set_tz(self.tz)
            ndb = tf.TinyFlux(storage=tf.storages.MemoryStorage,
                              auto_index=self.auto_index)
            if pts:
                ndb.storage.append(pts)
                ndb.index.invalidate()
                if self.auto_index:
                    ndb.reindex()
            self.db = ndb
            self.handles = {}
            self.suspended = None
            return None
        if k == "reopen":
            how = op.get("how", "close")
            if how == "close":
                if not self.closed:
                    db.close()
            else:
                self.disk.kill()
                self.probe("abandoned")
            self.db = None
            if op.get("external"):
                self.external_rewrite(op["external"])
            c = op.get("cfg") or {}
            self.auto_index = c.get("auto_index", self.auto_index)
            self.mode = c.get("access_mode", self.mode)
            if c.get("tz") and c["tz"] != self.tz:
                self.tz = c["tz"]
                self.probe("reopen-other-tz")
            self.boot()
            return None
        if k == "close":
            db.close()
            self.closed = True
            return None
        if k == "other_db":
            # a second, unrelated CSV database in the same process, with its
            # own formatting options, is used and closed
            from .simdisk import DB_DIR
            other = DB_DIR + "/other.csv"
            kw = dict(DIALECTS[op.get("dialect", "default")])
            odb = tf.TinyFlux(other, encoding=op.get("encoding"), **kw)
            try:
                odb.insert(tf.Point(
                    time=time_from_json({"iso": "2020-01-01T00:00:00+00:00"}),
                    tags={"k": "v;w|x"}, fields={"n": 1}))
                n = len(odb.all())
            finally:
                odb.close()
                self.disk._unlink_quiet(other)
            return n
        if k == "clock":
            self.clock.move(op["delta_us"])
            if op["delta_us"] < 0:
                self.probe("clock-back")
            return None
        raise HarnessError("unknown op %r" % (k,))

    # -- model expectation -------------------------------------------------------
    def expect(self, op):
        """Advance the model by `op`; returns ('ret', v) | ('raises', types) |
        ('any',)."""
        k = op["op"]
        mdl = self.model
        m = op.get("m")
        now = self.clock.now
        io_err = (OSError,)
        bad = (ValueError, TypeError)
        if k == "insert":
            if not self.can("append"):
                return ("raises", io_err)
            pt = op["pt"]
            if pt.get("raw") is not None:
                return ("raises", (TypeError,))
            if pt.get("mutate"):
                return ("raises", bad)
            p = mdl.insert(pt, m, now)
            if self.csv and unencodable(p, self.encoding):
                mdl.points.pop()
                return ("raises", (UnicodeError,))
            return ("ret", 1)
        if k == "insert_multiple":
            if not self.can("append"):
                return ("raises", io_err)
            poison = op.get("poison")
            n = 0
            for j, pt in enumerate(op["pts"]):
                if poison and poison["at"] == j:
                    if poison["kind"] == "raise":
                        return ("raises", (CollabError,))
                if pt.get("raw") is not None:
                    return ("raises", (TypeError,))
                if pt.get("mutate"):
                    return ("raises", bad)
                p = mdl.insert(pt, m, now)
                if self.csv and unencodable(p, self.encoding):
                    mdl.points.pop()
                    return ("raises", (UnicodeError,))
                n += 1
            if poison and poison["kind"] == "raise" and \
                    poison["at"] >= len(op["pts"]):
                return ("raises", (CollabError,))
            return ("ret", n)
        if k in ("update", "update_all", "remove", "drop"):
            if not (self.can("read") and self.can("write")):
                return ("raises", io_err)
        if k in ("update", "update_all"):
            q = op.get("q") if k == "update" else None
            if spec_invalid(op["spec"]):
                return ("raises", bad)
            if k == "update" and isinstance(q, dict) and "bad" in q:
                return ("raises", bad)
            before = [p.copy() for p in mdl.points] if self.csv else None
            cnt = mdl.update(q, m, op["spec"])
            if self.csv and cnt and any(
                    unencodable(p, self.encoding) for p in mdl.points
                    if p.touched):
                # a callable produced text outside the file's encoding: the
                # rewrite must fail and leave everything as it was
                mdl.points = before
                return ("raises", (UnicodeError,))
            return ("ret", cnt)
        if k == "remove":
            q = op["q"]
            if isinstance(q, dict) and "bad" in q:
                return ("maybe-raises", bad + (AttributeError,))
            return ("ret", mdl.remove(q, m))
        if k == "drop":
            return ("ret", mdl.remove(None, op["name"]))
        if k == "remove_all":
            if op.get("via") == "h":
                if not (self.can("read") and self.can("write")):
                    return ("raises", io_err)
                return ("ret", mdl.remove(None, m))
            if not self.can("write"):
                return ("raises", io_err)
            mdl.remove(None, None)
            return ("ret", None)
        if k in READS:
            if k in ("len", "iter", "iter_suspend", "iter_resume",
                     "index_valid"):
                # not gated by the access-mode decorators
                if k == "index_valid":
                    return ("any",)
                if not self.can("read"):
                    if k == "len" and self.auto_index and \
                            self.db is not None and self.db.index.valid:
                        pass
                    else:
                        return ("maybe-raises", io_err)
            elif not self.can("read"):
                return ("raises", io_err)
        if k in QUERY_READS:
            q = op["q"]
            if isinstance(q, dict) and "bad" in q:
                if k == "search":
                    return ("raises", bad)
                return ("maybe-raises", bad + (AttributeError,))
            if k == "search":
                return ("ret", mdl.search(q, m, op.get("sorted", True)))
            if k == "count":
                return ("ret", len(mdl.select_idx(q, m)))
            if k == "contains":
                return ("ret", len(mdl.select_idx(q, m)) > 0)
            if k == "get":
                idx = mdl.select_idx(q, m)
                return ("ret", mdl.points[idx[0]] if idx else None)
            if k == "select":
                keys = op["keys"]
                if select_keys_invalid(keys):
                    return ("raises", bad + (AttributeError,))
                ks = [keys] if isinstance(keys, str) else list(keys)
                return ("ret", mdl.select(ks, q, m))
        if k == "get_measurements":
            return ("ret", mdl.get_measurements())
        if k == "get_tag_keys":
            return ("ret", mdl.get_tag_keys(m))
        if k == "get_field_keys":
            return ("ret", mdl.get_field_keys(m))
        if k == "get_tag_values":
            return ("ret", mdl.get_tag_values(list(op.get("keys") or []), m))
        if k == "get_field_values":
            return ("ret", mdl.get_field_values(op["key"], m))
        if k == "get_timestamps":
            return ("ret", mdl.get_timestamps(m))
        if k == "len":
            return ("ret", len(mdl.of(m)))
        if k == "all":
            return ("ret", mdl.all(m, op.get("sorted", True)))
        if k == "iter":
            pts = mdl.of(m)
            take = op.get("take")
            return ("ret", pts if take is None else pts[:take])
        if k == "iter_suspend":
            return ("ret", mdl.points[:op.get("take", 1)])
        if k == "iter_resume":
            # what a suspended generator yields after other operations have
            # used the handle is unspecified; it may also find it closed
            return ("maybe-raises", (Exception,))
        if k == "bad_point":
            return ("raises", bad)
        if k == "reopen":
            c = op.get("cfg") or {}
            if c.get("access_mode", self.mode) in ("w", "w+") and self.csv:
                mdl.points = []
            if not self.csv and self.opts.get("emulate_reopen") and \
                    c.get("access_mode") in ("w", "w+"):
                mdl.points = []
            return ("ret", None)
        return ("any",)

    # -- the step loop -----------------------------------------------------------
    def run(self, ops):
        """Execute ops.  Raises Violation; returns normally otherwise
        (self.foreign tells whether the run was cut short)."""
        self.install()
        try:
            try:
                with contextlib.redirect_stdout(io.StringIO()):
                    self.disk.begin_op(-1)
                    self.boot(first=True)
                    self.disk.end_op()
                for i, op in enumerate(ops):
                    self.step(i, op)
                self.finish(len(ops))
            except Foreign as f:
                self.foreign = f
        finally:
            self.uninstall()
            set_tz("UTC")

    def abstract_state(self):
        n = len(self.model.points)
        nb = 0 if n == 0 else 1 if n == 1 else 2 if n < 5 else 3 if n < 12 \
            else 4
        ts = [p.t for p in self.model.points]
        ordered = all(a <= b for a, b in zip(ts, ts[1:]))
        dup = len(set(ts)) != len(ts)
        valid = None
        if self.db is not None:
            try:
                valid = self.db.index.valid
            except Exception:
                valid = None
        return (nb, len({p.m for p in self.model.points}), valid, ordered,
                dup, self.suspended is not None, self.pending > 0, self.mode)

    def step(self, i, op):
        k = op["op"]
        disk = self.disk
        self.count("ops")
        self.count("op:" + k)
        self.op_kinds.append(k)
        if len(self.op_kinds) >= 3:
            self.trigrams.add(tuple(self.op_kinds[-3:]))
        self.states.add((self.abstract_state(), k))

        pre_bytes = disk.peek(DB_PATH) if self.csv else None
        pre_listing = disk.listing()
        pre_model = self.model.copy()
        pre_valid = self._index_valid()
        pre_latest = pre_model.latest()
        pre_pending = self.pending
        pre_mode = self.mode
        log_start = disk.begin_op(i)
        faults = [Fault.from_json(f) for f in op.get("faults", ())]
        if faults:
            disk.plan[i] = {f.step: f for f in faults}
            disk.armed = disk.plan[i]
        clock_before = self.clock.now

        exp = self.expect(op)
        n_before, n_after = len(pre_model.points), len(self.model.points)
        if k in ("remove", "drop", "remove_all") and exp[0] == "ret":
            if 0 < n_after < n_before:
                self.had_partial_remove = True
            if n_after == 0 and n_before > 0:
                self._was_reset = True
        if k in INSERTS and self._was_reset and n_after > n_before:
            self.had_reset_then_insert = True
        if k in INSERTS:
            for pt in ([op.get("pt")] + list(op.get("pts") or [])):
                if not isinstance(pt, dict) or not pt.get("time"):
                    if isinstance(pt, dict) and pt.get("raw") is None:
                        self.probe("time-less-point")
                    continue
                tj = pt["time"]
                if tj.get("zone"):
                    self.probe("time-in-named-zone")
                elif "+" not in tj["iso"][10:] and "-" not in tj["iso"][10:]:
                    self.probe("naive-time")
                    if tj.get("fold"):
                        self.probe("naive-time-in-fold")
                    try:
                        # cross-check of the harness's reading of a naive
                        # value (astimezone under the process TZ) against
                        # the zoneinfo database
                        import zoneinfo
                        nv = time_from_json(tj)
                        a = nv.astimezone(UTC)
                        b = nv.replace(tzinfo=zoneinfo.ZoneInfo(
                            self.tz)).astimezone(UTC)
                        self.probe("naive-time-agrees-with-zoneinfo"
                                   if a == b else
                                   "naive-time-DISAGREES-with-zoneinfo")
                    except Exception:
                        pass
                elif not tj["iso"].endswith("+00:00"):
                    self.probe("time-with-utc-offset")
                if tj["iso"][:2] in ("17", "22"):
                    self.probe("time-at-range-end")
        self.collabs = {}
        out = self.execute(i, op)
        disk.end_op()
        steps = disk.log[log_start:]
        self.op_steps[i] = [(x[2], x[3], x[4], x[6]) for x in steps]
        if self.opts.get("trace_bytes"):
            self.bytes_trace.append((disk.peek(DB_PATH), tuple(
                disk.role(p) for p in disk.listing())))
        self.count("steps", len(steps))
        rec = {"i": i, "k": k, "out": out.canon(),
               "steps": [(s[3], s[4], s[5]) for s in steps]}
        self.digest.update(catalog.canon(rec).encode())
        self.results.append(out.canon())

        fired = [f for f in faults if f.fired]
        for f in fired:
            self.count("fault:" + f.mode + ":" + str(f.fired[0]))
            self.fault_sites.add((k, f.fired[0], f.mode,
                                  f.fired[1].split(":")[0]))
        cf = op.get("cfault")
        cfired = False
        if cf:
            cfired = any(c.fired for c in self.collabs.values())
            if cfired:
                self.count("fault:collab:" + cf["kind"])
                self.fault_sites.add((k, cf["which"], cf["kind"], cf["n"]))
                # the collaborator failed: the call must raise and the
                # contents stay as they were
                self.control_plan[i] = ("drop",)
                self.model = pre_model.copy()
                exp = ("raises", (CollabError,) if cf["kind"] == "raise"
                       else (CollabInterrupt,) if cf["kind"] == "interrupt"
                       else (ValueError, TypeError))

        ctx = {
            "i": i, "op": op, "k": k, "exp": exp, "out": out,
            "pre_bytes": pre_bytes, "pre_listing": pre_listing,
            "pre_model": pre_model, "pre_valid": pre_valid,
            "pre_latest": pre_latest, "steps": steps, "fired": fired,
            "cfired": cfired, "pre_pending": pre_pending,
            "pre_mode": pre_mode, "clock": clock_before,
        }
        poison = op.get("poison")
        if poison and poison.get("kind") == "raise" and k == \
                "insert_multiple" and exp[0] == "raises":
            # a raising iterable is an injected collaborator failure too
            self.control_plan[i] = ("prefix", "x", min(poison["at"],
                                                       len(op["pts"])))
            self.faulted = True
        if self.prop == "C11" and exp[0] == "raises" and \
                i not in self.control_plan and out.kind == "exc":
            # every call that is expected to raise is an injected failure
            # for C11: the control replays what it amounted to
            if k == "insert_multiple":
                self.control_plan[i] = (
                    "prefix", "x",
                    len(self.model.points) - len(pre_model.points))
            else:
                self.control_plan[i] = ("drop",)
            self.faulted = True
        if fired or cfired:
            self.faulted = True
        try:
            if out.kind == "crash":
                self.after_crash(ctx)
            elif fired and any(f.mode in ("pre", "post") for f in fired):
                self.after_io_fault(ctx)
            elif self.admissible is not None:
                self.judge_degraded(ctx)
            else:
                self.judge(ctx)
        finally:
            if "actual" in ctx:
                self.state_trace[i] = [canon_value(p)
                                       for p in ctx["actual"]]

    def _index_valid(self):
        try:
            return self.db.index.valid
        except Exception:
            return None

    # -- owners -------------------------------------------------------------------
    def owners_exc(self, op):
        k = op["op"]
        csvp = {"C04"} if self.csv else set()
        if k in INSERTS:
            o = ({"C04", "C05", "C16"} if self.csv else {"C01"}) | {"C08"}
        elif k in ("update", "update_all"):
            o = {"C03"} | csvp
            if "time" in op.get("spec", {}):
                o.add("C08")
        elif k in ("remove", "remove_all", "drop"):
            o = {"C02"} | csvp
        elif k in QUERY_READS:
            o = {"C01"}
            if queryast.has_attr(op["q"], "time") if isinstance(
                    op.get("q"), dict) and "k" in op["q"] else False:
                o.add("C08")
        elif k in GETTERS:
            o = {"C07"}
            if k == "get_timestamps":
                o.add("C08")
        elif k in ("reindex", "index_valid"):
            o = {"C06"}
        elif k in ("reopen", "close"):
            o = {"C04", "C05"}
        else:
            o = set()
        if self.prop in ("C11", "C12", "C13") and self.faulted:
            # fault checks own the usability of the database after what
            # they injected
            o = o | {self.prop}
        return o

    def owners_state(self, op, cls):
        k = op["op"]
        if k in INSERTS:
            if cls == "time":
                o = {"C08"}
            elif cls == "measurement":
                o = {"C05"} if self.csv else {"C01"}
                if op.get("via") == "h":
                    # inserting through a handle stores the point under the
                    # handle's measurement
                    o = o | {"C10"}
            elif cls in ("tags", "fields"):
                o = {"C05", "C04"} if self.csv else {"C01"}
            else:
                o = {"C04", "C05", "C16"} if self.csv else {"C01"}
        elif k in ("update", "update_all"):
            o = {"C03"}
            if self.csv:
                o |= {"C04", "C05"}
            if cls == "time" and "time" in op.get("spec", {}):
                o.add("C08")
        elif k in ("remove", "remove_all", "drop"):
            o = {"C02"}
            if self.csv:
                o.add("C04")
        elif k in ("reopen", "close"):
            o = {"C04", "C05"}
            if cls == "time":
                o.add("C08")
        else:
            # a read (or a no-op) changed the stored contents or their order
            o = {"C15"}
            if self.csv:
                o.add("C04")
            if k in QUERY_READS:
                o.add("C01")
            elif k in GETTERS:
                o.add("C07")
        if self.prop in ("C11", "C12", "C13") and self.faulted:
            o = o | {self.prop}
        return o

    # -- judging a fault-free step ---------------------------------------------------
    def judge(self, ctx):
        i, op, k, exp, out = (ctx["i"], ctx["op"], ctx["k"], ctx["exp"],
                              ctx["out"])
        P = self.prop

        # 1. outcome kind
        if exp[0] == "maybe-raises" and out.kind == "ret":
            self.check_all(ctx)
            return
        if exp[0] in ("raises", "maybe-raises"):
            if out.kind == "exc":
                self.count("raised-as-expected")
                if P == "C14":
                    self.nontrivial.add((
                        k, op.get("slot"), op.get("how"),
                        catalog.canon(op.get("value"))[:40],
                        catalog.canon(op.get("cfault"))[:80],
                        catalog.canon((op.get("pt") or {}).get("mutate"))[:60],
                        catalog.canon({x: y for x, y in (op.get("spec")
                                       or {}).items() if "static" in y
                                       })[:60] if op.get("expect_raise")
                        else "", type(out.exc).__name__))
                if not isinstance(out.exc, exp[1]) and not any(
                        isinstance(e, exp[1]) for e in exc_chain(out.exc)):
                    if exp[1] == (ValueError, TypeError) or \
                            ValueError in exp[1]:
                        self.fail({"C14"}, "wrong-exception-type",
                                  "%s raised %r, expected ValueError/"
                                  "TypeError" % (k, out.exc), i)
            elif exp[0] == "raises":
                self.judge_should_have_raised(ctx)
            # state must be what the model says (unchanged / prefix)
            self.check_all(ctx, after_raise=True)
            return
        if out.kind == "exc":
            self.fail(self.owners_exc(op), "unexpected-exception",
                      "%s raised %s: %s" % (k, type(out.exc).__name__,
                                            out.exc), i, desync=True)

        # 2. return value
        if exp[0] == "ret":
            self.check_return(ctx)

        # 3. state, side effects, invariants
        self.check_all(ctx)

    def check_all(self, ctx, after_raise=False):
        """State vs model, side effects, invariants.  A divergence that
        belongs to another property must not hide what this property's
        differential oracles (index vs rebuild, listings, types) see in the
        same step: they run before the foreign divergence ends the run."""
        foreign = None
        try:
            self.check_state(ctx, after_raise=after_raise)
        except Foreign as f:
            foreign = f
        self.check_side_effects(ctx)
        self.check_invariants(ctx)
        if foreign is not None:
            raise foreign

    def judge_should_have_raised(self, ctx):
        i, op, k = ctx["i"], ctx["op"], ctx["k"]
        exp = ctx["exp"]
        if OSError in exp[1]:
            self.fail({"C15"}, "write-allowed-in-mode",
                      "%s returned normally in access mode %r"
                      % (k, ctx["pre_mode"]), i)
            return
        if CollabError in exp[1] or CollabInterrupt in exp[1]:
            # C11 is conditional on the call raising: a swallowed failure is
            # only a violation if the contents changed (check_state).
            self.count("collab-failure-swallowed")
            return
        self.fail({"C14"}, "invalid-value-accepted",
                  "%s accepted an invalid value and returned %r: %s"
                  % (k, ctx["out"].value, _brief(op)), i)

    def check_isolation(self, ctx):
        """C10: a read through a Measurement handle never observes points
        of another measurement (whatever else may be wrong with it)."""
        i, op, k, got = ctx["i"], ctx["op"], ctx["k"], ctx["out"].value
        name = op["m"]
        mine = self.model.of(name)
        bad = None
        if k in ("search", "all", "iter"):
            for p in got:
                if p.m != name:
                    bad = "returned a point of measurement %r" % (p.m,)
                    break
        elif k == "get":
            if got is not None and got.m != name:
                bad = "returned a point of measurement %r" % (got.m,)
        elif k in ("count", "len"):
            if got > len(mine):
                bad = "returned %r, the measurement holds %d points" % (
                    got, len(mine))
        elif k == "contains":
            if got and not mine:
                bad = "returned True for an empty measurement"
        elif k == "select":
            keys = op["keys"] if isinstance(op["keys"], list) else \
                [op["keys"]]
            rows = {catalog.canon(canon_value(_numnorm(x)))
                    for x in self.model.select(keys, None, name)}
            for x in got:
                if catalog.canon(canon_value(_numnorm(x))) not in rows:
                    bad = "returned %r, which no point of the measurement " \
                        "has" % (x,)
                    break
        elif k == "get_timestamps":
            ts = {p.t for p in mine}
            for t in got:
                if t not in ts:
                    bad = "returned %s, no point of the measurement has " \
                        "that time" % (t,)
                    break
        elif k == "get_field_values":
            vals = [p.fields[op["key"]] for p in mine
                    if op["key"] in p.fields]
            for v in got:
                if not any(_same_num(v, w) for w in vals):
                    bad = "returned value %r of another measurement" % (v,)
                    break
        elif k in ("get_tag_keys", "get_field_keys"):
            ks = set(self.model.get_tag_keys(name) if k == "get_tag_keys"
                     else self.model.get_field_keys(name))
            extra = [x for x in got if x not in ks]
            if extra:
                bad = "returned keys %r of another measurement" % (extra,)
        elif k == "get_tag_values":
            mv = self.model.get_tag_values([], name)
            for key, vals in got.items():
                extra = [v for v in vals if v not in mv.get(key, [])]
                if extra:
                    bad = "returned tag values %r for key %r of another " \
                        "measurement" % (extra, key)
                    break
        self.evals += 1
        if bad:
            self.fail({"C10"}, "handle-observes-other-measurement",
                      "%s through the handle of %r %s: %s"
                      % (k, name, _brief(op), bad), i)

    def check_return(self, ctx):
        i, op, k, exp, out = (ctx["i"], ctx["op"], ctx["k"], ctx["exp"],
                              ctx["out"])
        want = exp[1]
        got = out.value
        P = self.prop
        if P == "C10" and op.get("via") == "h" and (
                k in QUERY_READS or k in GETTERS):
            self.check_isolation(ctx)
        if k in QUERY_READS:
            owners = {"C01"}
            timeq = queryast.has_attr(op["q"], "time")
            if timeq:
                owners.add("C08")
            if P not in owners and P != "__control__" and not (
                    P in ("C11", "C12", "C13") and self.faulted):
                return
            self.evals += 1
            msg = self.cmp_read(k, op, got, want)
            if msg:
                if k == "select" and "time" in (op["keys"] if isinstance(
                        op["keys"], list) else [op["keys"]]):
                    owners.add("C08")
                if P in ("C11", "C12", "C13") and self.faulted:
                    owners.add(P)
                self.fail(owners, "read-vs-model", "%s %s: %s"
                          % (k, _brief(op), msg), i)
            n = len(self.model.points)
            nm = len(want) if isinstance(want, list) else -1
            if ctx["pre_valid"] or (self.auto_index and self.can("read")):
                self.probe("read-served-with-valid-index")
            else:
                self.probe("read-served-by-scan")
            if self.had_partial_remove:
                self.probe("read-after-partial-remove")
            if self.had_reset_then_insert:
                self.probe("read-after-remove_all-then-insert")
            ts = [p.t for p in self.model.points]
            if any(a > b for a, b in zip(ts, ts[1:])):
                self.probe("read-on-out-of-order-storage")
            if k == "search" and 0 < nm < n:
                self.probe("search-matched-proper-subset")
            if k == "search" and 0 < nm < n:
                self.nontrivial.add((queryast.shape(op["q"]), n, nm,
                                     self._index_valid()))
            if op.get("scan"):
                self.check_scan(ctx)
            return
        if k in GETTERS:
            owners = {"C07"}
            if k == "get_timestamps":
                owners.add("C08")
            if k == "all" and op.get("sorted", True):
                owners.add("C08")
            if P not in owners and P != "__control__" and not (
                    P in ("C11", "C12", "C13") and self.faulted):
                return
            self.evals += 1
            msg = self.cmp_getter(k, op, got, want)
            if msg:
                if P in ("C11", "C12", "C13") and self.faulted:
                    owners.add(P)
                self.fail(owners, "getter-vs-model", "%s %s: %s"
                          % (k, _brief(op), msg), i)
            if k != "len" and want:
                self.nontrivial.add((k, op.get("m") is not None,
                                     len(self.model.points),
                                     self._index_valid(),
                                     catalog.canon(canon_value(want))[:80]))
            if op.get("scan"):
                self.check_scan(ctx)
            return
        if k in ("remove", "drop") or (k == "remove_all" and
                                       op.get("via") == "h"):
            if P == "C02":
                self.evals += 1
                n = len(ctx["pre_model"].points)
                if 0 < want < n:
                    self.nontrivial.add((
                        k, queryast.shape(op["q"]) if k == "remove" else "-",
                        op.get("m") is not None, n, want, ctx["pre_valid"],
                        self.csv))
            if got != want:
                o = {"C02"}
                if P in ("C11", "C12", "C13") and self.faulted:
                    o.add(P)
                self.fail(o, "remove-count", "%s %s returned %r, %d points "
                          "match" % (k, _brief(op), got, want), i)
            return
        if k in ("update", "update_all"):
            if P == "C03":
                self.evals += 1
                n = len(ctx["pre_model"].points)
                if want > 0:
                    self.nontrivial.add((
                        k, tuple(sorted(op["spec"])),
                        tuple(sorted(x for x in op["spec"]
                                     if isinstance(op["spec"][x], dict)
                                     and "fn" in op["spec"][x])),
                        queryast.shape(op["q"]) if k == "update" else "-",
                        op.get("m") is not None, min(n, 8), min(want, 8),
                        ctx["pre_valid"], self.csv))
            if got != want:
                o = {"C03"}
                if P in ("C11", "C12", "C13") and self.faulted:
                    o.add(P)
                self.fail(o, "update-count", "%s %s returned %r, %d points "
                          "change" % (k, _brief(op), got, want), i)
            return
        if k in INSERTS:
            if got != want:
                self.fail(self.owners_exc(op), "insert-count",
                          "%s returned %r, expected %r" % (k, got, want), i)
            return
        if k == "iter_suspend":
            return

    def cmp_read(self, k, op, got, want):
        if k == "search":
            d = diff_points(got, want)
            if d and d[0] == "order" and not op.get("sorted", True):
                return "unsorted result not in insertion order: " + d[1]
            if d:
                return d[1]
            if op.get("sorted", True):
                ts = [p.t for p in got]
                if any(a > b for a, b in zip(ts, ts[1:])):
                    return "sorted result not in time order"
            return None
        if k in ("count", "contains"):
            if got != want or type(got) is not type(want):
                return "returned %r, model %r" % (got, want)
            return None
        if k == "get":
            if (got is None) != (want is None):
                return "returned %r, model %r" % (got, want)
            if got is not None:
                d = diff_points([got], [want])
                if d:
                    return d[1]
            return None
        if k == "select":
            if not isinstance(got, list):
                return "returned %r" % (got,)
            a = sorted(catalog.canon(canon_value(_numnorm(x))) for x in got)
            b = sorted(catalog.canon(canon_value(_numnorm(x))) for x in want)
            if a != b:
                return "returned %r, model %r" % (got, want)
            keys = op["keys"] if isinstance(op["keys"], list) else \
                [op["keys"]]
            if "time" in keys:
                for row in got:
                    t = row if len(keys) == 1 else row[keys.index("time")]
                    if not time_ok(t):
                        return "selected time %r is not aware UTC" % (t,)
            return None

    def cmp_getter(self, k, op, got, want):
        if k in ("all", "iter"):
            d = diff_points(got, want)
            return d[1] if d else None
        if k == "get_timestamps":
            if not isinstance(got, list) or len(got) != len(want):
                return "returned %r, model %r" % (got, want)
            for a, e in zip(got, want):
                if not time_ok(a):
                    return "timestamp %r is not aware UTC" % (a,)
                if a != e:
                    return "timestamp %s, model %s" % (a.isoformat(),
                                                       e.isoformat())
            return None
        if k == "get_field_values":
            if not isinstance(got, list) or len(got) != len(want) or any(
                    not _same_num(a, e) for a, e in zip(got, want)):
                return "returned %r, model %r" % (got, want)
            return None
        if got != want:
            return "returned %r, model %r" % (got, want)
        if k in ("get_measurements", "get_tag_keys", "get_field_keys") and \
                list(got) != list(want):
            return "order: returned %r, model %r" % (got, want)
        if k == "get_tag_values":
            for key, vals in got.items():
                if list(vals) != list(want[key]):
                    return "order of values for %r: %r, model %r" % (
                        key, vals, want[key])
        return None

    def check_scan(self, ctx):
        """C01/C07: the same read answered by a scan-forced instance."""
        i, op, k = ctx["i"], ctx["op"], ctx["k"]
        if self.csv and (self.pending or not self.can("read")):
            return
        saved_db, saved_handles = self.db, self.handles
        try:
            with self.observer():
                inst = self.scan_instance()
                self.db, self.handles = inst, {}
                try:
                    out = self.execute(i, op)
                finally:
                    self.db, self.handles = saved_db, saved_handles
                    if self.csv:
                        inst.close()
        finally:
            self.db, self.handles = saved_db, saved_handles
        self.probe("scan-instance-compared")
        owners = {"C01"} if k in QUERY_READS else {"C07"}
        if out.kind != "ret":
            self.fail(owners, "scan-path-exception",
                      "%s %s on the scan path raised %r"
                      % (k, _brief(op), out.exc), i)
            return
        want = ctx["exp"][1]
        msg = self.cmp_read(k, op, out.value, want) if k in QUERY_READS \
            else self.cmp_getter(k, op, out.value, want)
        if msg:
            self.fail(owners, "scan-vs-model", "scan path: %s %s: %s"
                      % (k, _brief(op), msg), i)

    # -- state ---------------------------------------------------------------------
    def check_state(self, ctx, after_raise=False):
        i, op, k = ctx["i"], ctx["op"], ctx["k"]
        if self.db is None:
            return
        if self.csv and self.mode in ("w", "a") and k != "reopen":
            pass
        rewrote = k in REWRITES and ctx["out"].kind == "ret" and \
            (ctx["out"].value not in (0, None) or (
                k == "remove_all" and op.get("via") != "h"))
        lenient = self.csv and not self.cfg["flush_on_insert"] and \
            not rewrote and (self.pending > 0 or k in INSERTS)
        if k in INSERTS and self.csv and not self.cfg["flush_on_insert"]:
            if ctx["out"].kind == "ret":
                self.pending += ctx["out"].value or 0
            else:
                self.pending += len(op.get("pts", [1]))
        try:
            actual = self.observe(lenient=lenient)
        except DecodeError as e:
            owners = self.owners_state(op, "undecodable")
            if after_raise:
                owners = owners | {"C11"}
            self.confirm_file_property(ctx, owners, "file-undecodable",
                                       "after %s %s the file does not "
                                       "decode: %s" % (k, _brief(op), e))
            return
        expected = self.model.points
        if lenient:
            n = len(actual)
            lo = len(expected) - self.pending
            if n >= len(expected):
                self.pending = 0
            if n < lo or n > len(expected):
                d = ("count", "%d rows on disk, model has %d with at most "
                     "%d buffered" % (n, len(expected), self.pending))
            else:
                d = diff_points(actual, expected[:n])
        else:
            d = diff_points(actual, expected,
                            strict_zero=(self.prop == "C05"))
            if self.csv and d is None:
                self.pending = 0
        ctx["actual"] = actual
        if d is None and lenient and len(actual) < len(expected):
            # rows still sit in the handle's buffer: the logical contents
            # (what the index must mirror) are the model's
            ctx["actual"] = list(expected)
        if d is None:
            if self.prop == "C04" and ctx["out"].kind == "ret" and \
                    not lenient and self.pending == 0 and i % 3 == 0 and \
                    self.db is not None:
                self.check_fresh_reader(ctx)
            if self.prop == "C04" and ctx["out"].kind == "ret":
                self.evals += 1
                self.nontrivial.add((
                    k, self.cfg["flush_on_insert"], self.cfg["encoding"],
                    self.cfg["dialect"], self.cfg["locale"], self.mode,
                    min(len(actual), 6), lenient,
                    self.suspended is not None))
            elif self.prop == "C05" and k in INSERTS + ("update",
                                                        "update_all",
                                                        "reopen"):
                self.evals += 1
                for p in actual[-3:]:
                    self.nontrivial.add(_pkey(p))
            return
        owners = self.owners_state(op, d[0])
        if op.get("via") == "h" and k in WRITES:
            # C10: an operation through a handle must leave every other
            # measurement alone
            name = op["m"]
            pm = ctx["pre_model"]
            moved = {p.uid for p in pm.points if p.m == name}
            rest_a = [p for p, q in zip(actual, expected)
                      if q.uid not in moved] \
                if len(actual) == len(expected) else None
            rest_e = [q for q in expected if q.uid not in moved]
            if rest_a is None or diff_points(rest_a, rest_e) is not None:
                if k not in INSERTS:
                    owners = owners | {"C10"}
        if after_raise:
            owners = owners | {"C11"}
            if ctx["exp"][0] == "raises" and ValueError in ctx["exp"][1] \
                    and any(well_typed(p) for p in actual):
                # an invalid value actually made it into the database
                owners = owners | {"C14"}
        self.confirm_file_property(
            ctx, owners, "state-vs-model:" + d[0],
            "after %s %s: %s" % (k, _brief(op), d[1]))

    def check_fresh_reader(self, ctx):
        """C04 (2): a fresh TinyFlux(path, access_mode="r") on the same disk
        reads exactly the current contents."""
        i, k = ctx["i"], ctx["k"]
        saved_db, saved_handles = self.db, self.handles
        out = None
        try:
            with self.observer():
                try:
                    inst = self.fresh_reader(auto_index=bool(i % 2))
                except Exception as e:
                    self.fail({"C04"}, "fresh-reader-cannot-open",
                              "after %s a fresh reader cannot open the "
                              "file: %r" % (k, e), i, desync=True)
                    return
                self.db, self.handles = inst, {}
                try:
                    out = self.execute(i, {"op": "all", "sorted": False})
                finally:
                    self.db, self.handles = saved_db, saved_handles
                    inst.close()
        finally:
            self.db, self.handles = saved_db, saved_handles
        self.probe("fresh-reader-compared")
        if out.kind != "ret":
            self.fail({"C04"}, "fresh-reader-raised",
                      "after %s a fresh reader raised %r" % (k, out.exc), i)
            return
        d = diff_points(out.value, self.model.points)
        if d:
            self.confirm_file_property(
                ctx, {"C04"}, "fresh-reader-vs-model:" + d[0],
                "after %s a fresh reader sees: %s" % (k, d[1]))

    def confirm_file_property(self, ctx, owners, oracle, msg):
        """C04/C05 speak about the file: a divergence that the memory
        storage shows as well is a logic defect and not theirs."""
        i = ctx["i"]
        if self.prop in ("C04", "C05") and self.prop in owners and \
                self.csv and self.opts.get("twin_runner"):
            if self.opts["twin_runner"](i):
                self.probe("twin-says-logic-defect")
                owners = owners - {"C04", "C05"}
        self.fail(owners, oracle, msg, i, desync=True)

    # -- side effects: C15, C16 ---------------------------------------------------------
    def check_side_effects(self, ctx):
        i, op, k, out = ctx["i"], ctx["op"], ctx["k"], ctx["out"]
        disk = self.disk
        # listing: every operation, returned or raised
        post_listing = disk.listing()
        if post_listing != ctx["pre_listing"]:
            new = sorted(set(post_listing) - set(ctx["pre_listing"]))
            gone = sorted(set(ctx["pre_listing"]) - set(post_listing))
            self.fail({"C15"}, "files-left-behind",
                      "%s %s: directory listing changed: new=%r gone=%r"
                      % (k, _brief(op), [disk.role(p) for p in new],
                         [disk.role(p) for p in gone]), i)
        if self.prop == "C15":
            self.evals += 1
        if not self.csv:
            return
        post = disk.peek(DB_PATH)
        pre = ctx["pre_bytes"]
        # which operations must leave the bytes alone?
        unchanged_model = self.model.same_state(ctx["pre_model"])
        must_not_touch = False
        if k in READS or k == "bad_point":
            must_not_touch = True
        elif k in REWRITES and unchanged_model and (
                out.kind == "exc" or out.value in (0, None)):
            # matched / changed nothing, and says so (a call that claims to
            # have changed something is judged by C02/C03/C14, not here)
            must_not_touch = True
            if ctx["exp"][0] == "ret":
                self.probe("noop-write")
        elif ctx["exp"][0] == "raises" and OSError in ctx["exp"][1]:
            must_not_touch = True
            self.probe("write-in-readonly-mode")
        elif out.kind == "exc" and unchanged_model and k not in INSERTS:
            must_not_touch = True
        if must_not_touch and post != pre:
            if ctx["pre_pending"] > 0 and pre is not None and \
                    post is not None and post.startswith(pre):
                self.probe("read-flushed-buffered-rows")
            else:
                owners = {"C15"}
                if out.kind == "exc":
                    owners.add("C11")
                self.fail(owners, "bytes-changed",
                          "%s %s changed the database file (%d -> %d bytes)"
                          % (k, _brief(op), len(pre or b""),
                             len(post or b"")), i)
        if must_not_touch and self.prop == "C15":
            self.nontrivial.add((k, len(pre or b"") > 0,
                                 self._index_valid(), out.kind,
                                 self.mode, ctx["pre_pending"] > 0))
        if k in INSERTS and out.kind == "ret" and self.owns({"C16"}):
            self.check_append_only(ctx, pre, post)

    def check_append_only(self, ctx, pre, post):
        i, op, k, out = ctx["i"], ctx["op"], ctx["k"], ctx["out"]
        self.evals += 1
        if not post.startswith(pre):
            self.fail({"C16"}, "not-a-prefix",
                      "%s rewrote existing bytes (old content is not a "
                      "prefix of the new content)" % k, i)
        written = 0
        for s in ctx["steps"]:
            kind, role, nb = s[3], s[4], s[5]
            if role != "primary":
                self.fail({"C16"}, "foreign-inode",
                          "%s touched another file: %s on %s"
                          % (k, kind, role), i)
            if kind == "read":
                self.fail({"C16"}, "read-during-insert",
                          "%s read existing data (%d-byte read request)"
                          % (k, nb), i)
            if kind in ("open", "copy-chunk", "rename", "unlink"):
                self.fail({"C16"}, "non-append-step",
                          "%s performed %s on the database file"
                          % (k, kind), i)
            if kind == "write":
                written += nb
        growth = len(post) - len(pre)
        if self.cfg["flush_on_insert"] and ctx["pre_pending"] == 0:
            if written != growth:
                self.fail({"C16"}, "bytes-rewritten",
                          "%s wrote %d bytes but the file grew by %d"
                          % (k, written, growth), i)
        npts = max(out.value or 1, 1)
        per_point = len(ctx["steps"]) / npts
        size = len(ctx["pre_model"].points)
        self.sizes[size] = max(self.sizes.get(size, 0), per_point)
        bound = self.opts.get("insert_step_bound", 16)
        if per_point > bound:
            self.fail({"C16"}, "io-cost",
                      "%s needed %.1f I/O calls per point with %d points "
                      "stored (bound %d)" % (k, per_point, size, bound), i)
        self.nontrivial.add((size, ctx["pre_valid"], self.suspended is not None,
                             k, op.get("gen", False),
                             self.model.latest() != ctx["pre_latest"]))

    # -- invariants: C06, C14 -------------------------------------------------------------
    def check_invariants(self, ctx):
        i, op, k = ctx["i"], ctx["op"], ctx["k"]
        P = self.prop
        if P in ("C14", "C11", "__control__") and "actual" in ctx:
            for n, p in enumerate(ctx["actual"]):
                w = well_typed(p)
                if w:
                    self.fail({"C14"}, "ill-typed-stored",
                              "after %s point %d holds an invalid value: %s"
                              % (k, n, w), i)
            if P == "C14":
                self.evals += 1
        if P in ("C06", "C11", "C13", "__control__") and \
                self.db is not None:
            self.check_index(ctx)

    def check_index(self, ctx):
        i, op, k, out = ctx["i"], ctx["op"], ctx["k"], ctx["out"]
        db = self.db
        idx = db.index
        valid = idx.valid
        P = self.prop
        owners = {"C06"}
        if P in ("C11", "C13") and (ctx["out"].kind == "exc" or
                                    self.admissible is not None) and \
                not self.index_drifted:
            # the index agreed with storage before this failing call
            owners = owners | {P}
        if k in INSERTS and out.kind == "ret" and self.auto_index and \
                ctx["pre_valid"]:
            pm = ctx["pre_model"]
            new = self.model.points[len(pm.points):]
            latest = ctx["pre_latest"]
            in_order = True
            for p in new:
                if latest is not None and p.t < latest:
                    in_order = False
                    break
                latest = p.t
            if in_order and new and not valid:
                self.fail(owners, "in-order-insert-invalidated",
                          "an insert in non-decreasing time order left the "
                          "index invalid", i)
            if not in_order:
                self.probe("out-of-order-insert")
                if not valid:
                    self.probe("index-invalidated-by-insert")
        if (k in QUERY_READS or k in ("get_measurements", "get_tag_keys",
                                      "get_tag_values", "get_field_keys",
                                      "get_field_values", "get_timestamps",
                                      "all")) \
                and out.kind == "ret" and self.auto_index and not valid:
            self.fail(owners, "read-left-index-invalid",
                      "%s returned with auto_index on and the index invalid"
                      % k, i)
        if ctx["pre_valid"] is False and valid:
            self.probe("index-invalid-to-valid")
        if not valid:
            return
        if "actual" not in ctx:
            return
        self.evals += 1
        msg = self.index_equiv(idx, ctx["actual"])
        if msg:
            drifted_before = self.index_drifted
            self.index_drifted = True
            if drifted_before and P != "C06":
                return
            self.fail(owners, "index-vs-rebuild",
                      "after %s %s the valid index differs from a rebuild: %s"
                      % (k, _brief(op), msg), i)
        self.nontrivial.add((self.abstract_state(), k))

    def index_battery(self, pts):
        """Deterministic battery of probe queries derived from the contents."""
        qs = []
        ms = sorted({p.m for p in pts}) + ["__absent__"]
        tks = sorted({k for p in pts for k in p.tags}) + ["__absent__"]
        fks = sorted({k for p in pts for k in p.fields}) + ["__absent__"]
        for m in ms[:4]:
            qs.append({"k": "cmp", "attr": "measurement", "op": "==",
                       "rhs": m})
        for tk in tks[:4]:
            qs.append({"k": "exists", "attr": "tag", "key": tk})
            vals = sorted({p.tags[tk] for p in pts
                           if tk in p.tags and p.tags[tk] is not None})
            for v in vals[:2]:
                qs.append({"k": "cmp", "attr": "tag", "key": tk, "op": "==",
                           "rhs": v})
                qs.append({"k": "cmp", "attr": "tag", "key": tk, "op": "!=",
                           "rhs": v})
        for fk in fks[:4]:
            qs.append({"k": "exists", "attr": "field", "key": fk})
            vals = sorted({p.fields[fk] for p in pts
                           if fk in p.fields and p.fields[fk] is not None
                           and p.fields[fk] == p.fields[fk]})
            for v in vals[:2]:
                qs.append({"k": "cmp", "attr": "field", "key": fk,
                           "op": "<=", "rhs": v})
        ts = sorted({p.t for p in pts})
        for t in ts[:1] + ts[len(ts) // 2:len(ts) // 2 + 1] + ts[-1:]:
            for o in ("<", "<=", "==", "!=", ">=", ">"):
                qs.append({"k": "cmp", "attr": "time", "op": o,
                           "rhs": {"iso": t.isoformat()}})
        qs.append({"k": "noop", "attr": "time"})
        qs.append({"k": "noop", "attr": "measurement"})
        if len(qs) >= 2:
            qs.append({"k": "and", "a": qs[0], "b": qs[-3]})
            qs.append({"k": "not", "q": qs[0]})
        return qs

    def index_equiv(self, idx, pts):
        """Compare every answer of `idx` with a freshly built index."""
        tf = self.tf
        from tinyflux.index import Index
        fresh = Index()
        fresh.build([tf.Point(time=p.t, measurement=p.m, tags=dict(p.tags),
                              fields=dict(p.fields)) for p in pts])
        if len(idx) != len(fresh):
            return "len %d vs %d" % (len(idx), len(fresh))
        if idx.empty != fresh.empty:
            return "empty %r vs %r" % (idx.empty, fresh.empty)
        if pts:
            try:
                a, b = idx.latest_time, fresh.latest_time
            except Exception as e:
                return "latest_time raised %r" % (e,)
            if a != b:
                return "latest_time %s vs %s" % (a, b)
        if idx.get_measurements() != fresh.get_measurements():
            return "get_measurements %r vs %r" % (
                idx.get_measurements(), fresh.get_measurements())
        ms = [None] + sorted(fresh.get_measurements()) + ["__absent__"]
        for m in ms:
            for name, args in (("get_tag_keys", (m,)),
                               ("get_field_keys", (m,)),
                               ("get_timestamps", (m,)),
                               ("get_tag_values", ([], m))):
                try:
                    a = getattr(idx, name)(*args)
                    b = getattr(fresh, name)(*args)
                except Exception as e:
                    return "%s(%r) raised %r" % (name, m, e)
                if a != b:
                    return "%s(%r): %r vs rebuilt %r" % (name, m, a, b)
            for fk in sorted(fresh.get_field_keys()):
                a = idx.get_field_values(fk, m)
                b = fresh.get_field_values(fk, m)
                if len(a) != len(b) or any(
                        not _same_num(x, y) for x, y in zip(a, b)):
                    return "get_field_values(%r, %r): %r vs rebuilt %r" % (
                        fk, m, a, b)
        for q in self.index_battery(pts):
            tq = queryast.compile_query(q, tf)
            try:
                a = idx.search(tq).items
            except Exception as e:
                return "search(%s) raised %r" % (queryast.shape(q), e)
            b = fresh.search(tq).items
            if a != b:
                return "search(%s rhs=%r): positions %r vs rebuilt %r" % (
                    queryast.shape(q), q.get("rhs"), sorted(a), sorted(b))
        return None

    # -- end of run ---------------------------------------------------------------------
    def finish(self, n):
        """Clean close, then the file alone must hold the contents (C04/C05),
        and a fresh incarnation must read it back (durability of content)."""
        if self.db is not None and self.admissible is None:
            try:
                self.final_points = self.observe(lenient=self.pending > 0)
            except DecodeError:
                self.final_points = None
        if self.db is None or not self.csv:
            return
        if self.admissible is not None:
            return
        op = {"op": "reopen", "how": "close", "cfg": {"access_mode": "r+"
              if self.mode in ("w", "w+") else self.mode}}
        if self.mode == "a":
            op["cfg"]["auto_index"] = False
        pre_listing = self.disk.listing()
        self.disk.begin_op(n)
        out = self.execute(n, op)
        self.disk.end_op()
        ctx = {"i": n, "op": op, "k": "reopen", "exp": ("ret", None),
               "out": out, "pre_listing": pre_listing,
               "pre_model": self.model, "pre_bytes": None,
               "pre_pending": 0, "pre_valid": None, "pre_latest": None,
               "steps": [], "pre_mode": self.mode}
        if out.kind == "exc":
            self.fail({"C04", "C05"} | ({self.prop} if self.prop in (
                "C11", "C12", "C13") else set()), "reopen-failed",
                "close + reopen raised %r" % (out.exc,), n, desync=True)
        self.pending = 0
        self.check_state(ctx)
        if self.prop in ("C04", "C05") and self.can("read"):
            self.evals += 1
            with self.observer():
                out = self.execute(n, {"op": "all", "sorted": False})
            if out.kind != "ret":
                self.fail({"C04", "C05"}, "reopen-read-failed",
                          "all() after reopen raised %r" % (out.exc,), n)
            d = diff_points(out.value, self.model.points,
                            strict_zero=(self.prop == "C05"))
            if d:
                self.confirm_file_property(
                    ctx, {"C04", "C05"}, "reopen-vs-model:" + d[0],
                    "after close and reopen: " + d[1])

    def expect_only(self, op, ctx):
        return self.expect(op)

    def degraded_match(self, k, op, got, want):
        if k in QUERY_READS:
            return self.cmp_read(k, op, got, want) is None
        if k in GETTERS:
            return self.cmp_getter(k, op, got, want) is None
        if k in WRITES:
            return got == want
        return True

    # fault handling is in faults.py (mixed in below)
    def after_crash(self, ctx):
        from . import faults
        faults.after_crash(self, ctx)

    def after_io_fault(self, ctx):
        from . import faults
        faults.after_io_fault(self, ctx)

    def judge_degraded(self, ctx):
        from . import faults
        faults.judge_degraded(self, ctx)


def _numnorm(v):
    """1 and 1.0 are the same stored value (Python ==); normalise numbers so
    that canonical text compares like ==."""
    if isinstance(v, tuple):
        return tuple(_numnorm(x) for x in v)
    if isinstance(v, bool) or not isinstance(v, (int, float)):
        return v
    if isinstance(v, int):
        try:
            f = float(v)
        except OverflowError:
            return v
        return f if f == v else v
    if v == 0:
        return 0.0
    return v


def _same_num(a, b):
    if a is None or b is None:
        return a is b
    return a == b


def _gen_points(pts, poison):
    for j, p in enumerate(pts):
        if poison and poison["kind"] == "raise" and poison["at"] == j:
            raise CollabError("injected failure in generator at %d" % j)
        yield p
    if poison and poison["kind"] == "raise" and poison["at"] >= len(pts):
        raise CollabError("injected failure at end of generator")


def _from_harness(e):
    tb = e.__traceback__
    last = None
    while tb is not None:
        last = tb
        tb = tb.tb_next
    return last is not None and "/tfsim/" in last.tb_frame.f_code.co_filename


def _brief(op):
    d = {k: v for k, v in op.items() if k not in ("op",)}
    s = catalog.canon(d)
    return s if len(s) < 300 else s[:300] + "..."
