"""Seeded generation of configurations and concrete operation histories.

One `random.Random(seed)` decides everything.  The whole operation list is
materialised before execution; state-dependent choices (right-hand sides near
stored values, times relative to stored times) are made by advancing the
reference model alone, never the implementation.
"""

import datetime as _dt
import random

from . import catalog
from .catalog import UTC
from .seams import set_tz
from .world import DEFAULT_CFG, World

ZONES = ["UTC", "America/Los_Angeles", "Australia/Lord_Howe",
         "Asia/Kathmandu"]
OFFSETS_MIN = [0, 60, -480, -420, 345, 630, 660, 840, -720, 330, -210, 1]

ALPHABETS = {
    "plain": {
        "m": ["m1", "m2", "m3"], "tk": ["a", "b", "c"],
        "tv": ["x", "y", "z", "xx", "Y"], "fk": ["p", "q", "r"],
    },
    "hostile": {
        "m": ["m,1", 'm"2', "m\n3", " m4 ", "m;5|", "it's"],
        "tk": ["a,b", 'k"q', "k\nl", " k ", "k\tt", "k'"],
        "tv": ["v,1", 'v"2"', "line\nbreak", "cr\rx", "crlf\r\nx",
               "nul\0x", "\ttab", "semi;colon", "pipe|x", " lead", "trail ",
               "﻿bom", "u sep", "'sq'", '""', ","],
        "fk": ["f,1", 'f"2', "f\n3", " f ", "f;|", "f'"],
    },
    "reserved": {
        "m": ["_default", "_none", "_tag_", "t_", "time", "_m", "none",
              "f_x"],
        "tk": ["_tag_", "t_", "_field_", "f_", "t", "f", "_", "", "time",
               "tx", "_t"],
        "tv": ["_tag_a", "t_a", "_field_p", "f_p", "none", "_default",
               "_non", "_none_", "t", "f"],
        "fk": ["_field_", "f_", "_tag_", "t_", "f", "t", "_", "", "fx",
               "_f"],
    },
    "wide": {
        "m": ["測定", "мера", "m\U0001f600"],
        "tk": ["キー", "к", "ḱ"],
        "tv": ["値", "знач", "\U0001f600",
               "é", "ß", "ı"],
        "fk": ["フ", "ф", "f̈"],
    },
    "latin1": {
        "m": ["café", "niño", "m1"],
        "tk": ["clé", "a", "ü"],
        "tv": ["é", "ß", "ñ", "¿", "x", "É"],
        "fk": ["ç", "p", "ø"],
    },
}
KNOWN_TRIGGERS = {"m": [""], "tv": ["_none"]}

NUMBERS = {
    "small": [0, 1, 2, 3, -1, 10, 0.5, -2.25, 1.0, 2.0, 100, 7],
    "boundary": [0, -0.0, 0.0, 1, -1, float("inf"), float("-inf"), 5e-324,
                 2.2250738585072014e-308, 2 ** 53, 2 ** 53 + 1,
                 -(2 ** 53) - 1, 1e308, 1.7976931348623157e308, 0.1,
                 1e-7, 123456789.125, 10 ** 30, -3, 1e16, 2 ** 63,
                 9007199254740993.0, 1e22, 1.5e300],
}

REGEXES = [("^x", 0), ("x+", 0), (".*", 0), ("X", 2), ("y$", 0), ("^$", 0),
           ("[a-z]", 0), ("^m", 0), ("1", 0), ("^.$", 16)]

# naive wall-clock times on and around DST gaps / folds, per zone
TRANSITIONS = {
    "America/Los_Angeles": ["2022-03-13T02:00:00", "2022-03-13T02:30:00",
                            "2022-03-13T03:00:00", "2022-11-06T01:00:00",
                            "2022-11-06T01:30:00", "2022-11-06T02:00:00",
                            "2021-03-14T02:59:59.999999"],
    "Australia/Lord_Howe": ["2022-04-03T01:30:00", "2022-04-03T01:45:00",
                            "2022-04-03T02:00:00", "2022-10-02T02:00:00",
                            "2022-10-02T02:15:00", "2022-10-02T02:30:00"],
    "Asia/Kathmandu": ["1986-01-01T00:00:00", "1986-01-01T00:10:00",
                       "1985-12-31T23:59:59.999999"],
    "UTC": ["2022-03-13T02:30:00"],
}


def _w(rng, weights):
    """Weighted choice from a dict name -> weight."""
    items = [(k, v) for k, v in weights.items() if v > 0]
    tot = sum(v for _, v in items)
    x = rng.random() * tot
    for k, v in items:
        x -= v
        if x < 0:
            return k
    return items[-1][0]


PROFILE_BASE = {
    "storages": ["csv", "mem"], "auto_index": [True, False],
    "csv_vary": False, "alphabets": ["plain"], "numbers": ["small"],
    "time": "utc", "zones": ["UTC"], "via_h": 0.0, "len": (3, 40),
    "mix": {"insert": 6, "insert_multiple": 2, "update": 2, "update_all": 1,
            "remove": 2, "remove_all": 0.3, "drop": 0.5, "read": 4,
            "getter": 2, "lifecycle": 0.7, "clock": 1, "cursor": 0,
            "illtyped": 0, "invalid": 0, "bulk": 0},
    "reads_after": (0, 3), "modes": ["r+"], "scan": 0.0, "collab": 0.0,
    "faults": None, "max_points": 25, "qdepth": 3, "none_values": 0.15,
    "compact": 0.0, "known_triggers": 0.0, "abandon": 0.0,
    "measurement_filter": 0.35, "time_profile": None,
}


def profile(**kw):
    p = dict(PROFILE_BASE)
    mix = dict(PROFILE_BASE["mix"])
    mix.update(kw.pop("mix", {}))
    p.update(kw)
    p["mix"] = mix
    return p


class Gen:
    def __init__(self, seed, prof, prop, tier="quick"):
        self.rng = random.Random(seed)
        self.seed = seed
        self.prof = prof
        self.prop = prop
        self.tier = tier
        self.cfg = self.draw_cfg()
        self.w = World(self.cfg, prop, None)  # dry: model only
        self.alpha = self.draw_alphabet()
        self.cfg["triggers"] = bool(self.triggers)
        numname = self.rng.choice(prof["numbers"])
        if numname == "fuzz":
            import struct
            vals = []
            while len(vals) < 14:
                bits = self.rng.getrandbits(64)
                x = struct.unpack("<d", struct.pack("<Q", bits))[0]
                if x == x:  # no NaN: a point holding NaN is not equal to itself
                    vals.append(x)
            vals += [self.rng.randint(-2 ** 70, 2 ** 70) for _ in range(4)]
            vals += [self.rng.randint(-10, 10) for _ in range(3)]
            NUMBERS["fuzz"] = vals
        self.nums = list(NUMBERS[numname])
        self.time_profile = prof["time_profile"] or self.rng.choice(
            ["inorder", "jitter", "ties", "random", "adjacent"])
        self.qdepth = prof["qdepth"]
        self.handles_seen = set()
        self.bulked = False

    # -- configuration -------------------------------------------------------
    def draw_cfg(self):
        r, p = self.rng, self.prof
        cfg = dict(DEFAULT_CFG)
        cfg["storage"] = r.choice(p["storages"])
        cfg["auto_index"] = r.choice(p["auto_index"])
        cfg["tz"] = r.choice(p["zones"])
        cfg["access_mode"] = "r+"
        if cfg["storage"] == "csv" and p.get("initial_mode_vary"):
            cfg["access_mode"] = r.choice([m for m in p["modes"] if "+" in m])
        if cfg["storage"] == "csv" and p["csv_vary"]:
            cfg["flush_on_insert"] = r.random() < 0.6
            cfg["encoding"] = r.choice([None, None, "utf-8", "utf-16",
                                        "latin-1"])
            cfg["dialect"] = r.choice(["default", "default", "semicolon_all",
                                       "tab", "pipe_sq", "lf"])
            cfg["locale"] = r.choice(["utf-8", "utf-8", "latin-1", "cp1252"])
            cfg["bufsize"] = r.choice([4096, 8192, 65536])
        if cfg["storage"] == "csv" and p.get("flush_vary"):
            cfg["flush_on_insert"] = r.random() < 0.6
        if cfg["storage"] == "csv" and p.get("flush_off"):
            cfg["flush_on_insert"] = r.random() >= p["flush_off"]
        if cfg["storage"] == "csv" and p.get("cfg_dialects"):
            cfg["dialect"] = r.choice(["default", "default", "semicolon_all",
                                       "tab", "pipe_sq", "lf"])
        if cfg["storage"] == "csv" and not p.get("faults_need_atomic_rows"):
            # small I/O buffers: the file is larger than the buffer, reads
            # stop mid-file, long rows exceed the buffer (fault-free
            # profiles only: assumption A3 of the crash model needs rows
            # smaller than the buffer)
            cfg["bufsize"] = r.choice([64, 512, 4096, 8192, 8192, 65536])
            cfg["path_kind"] = r.choice(["str", "str", "pathlib"])
        if cfg["storage"] == "csv":
            cfg["text_chunk"] = r.choice([None, None, 1, 16, 64, 512])
            cfg["copy_chunk"] = r.choice([0, 0, 1, 7, 64, 4096])
            cfg["tmp_same_fs"] = r.random() < 0.5
        if p.get("cfg_override"):
            cfg.update(p["cfg_override"])
        return cfg

    def effective_encoding(self):
        return self.cfg["encoding"] or self.cfg["locale"]

    def fuzz_string(self, enc):
        """A random string over an interesting pool of code points."""
        r = self.rng
        pool = [",", '"', "'", "\n", "\r", "\t", "\0", " ", ";", "|", "\\",
                "_", "t", "f", "a", "1", "-", ".", "e", "=", "\x1f", "\x7f",
                "\x85", "\xa0", "\u2028", "\u2029", "\ufeff", "\u200b",
                "\u0301", "\u00e9", "\u00df", "\u0130", "\u01c5", "\u4e2d",
                "\U0001f600", "\U00010000", "\ud7ff", "\ue000", "\ufffd"]
        n = r.choice([0, 1, 1, 2, 3, 5, 9])
        out = []
        for _ in range(n):
            if r.random() < 0.75:
                out.append(r.choice(pool))
            else:
                cp = r.choice([r.randint(1, 0x7f), r.randint(0x80, 0x7ff),
                               r.randint(0x800, 0xd7ff),
                               r.randint(0xe000, 0xffff),
                               r.randint(0x10000, 0x10ffff)])
                out.append(chr(cp))
        s = "".join(out)
        try:
            s.encode(enc)
        except UnicodeEncodeError:
            s = s.encode(enc, errors="ignore").decode(enc)
        return s

    def draw_alphabet(self):
        r = self.rng
        name = r.choice(self.prof["alphabets"])
        if name == "fuzz":
            enc0 = self.effective_encoding() if self.cfg["storage"] == \
                "csv" else "utf-8"
            ALPHABETS["fuzz"] = {
                "m": [self.fuzz_string(enc0) or "m" for _ in range(4)],
                "tk": [self.fuzz_string(enc0) for _ in range(5)],
                "tv": [self.fuzz_string(enc0) for _ in range(8)],
                "fk": [self.fuzz_string(enc0) for _ in range(5)],
            }
            for k in ("m", "tv"):
                ALPHABETS["fuzz"][k] = [
                    x for x in ALPHABETS["fuzz"][k]
                    if x not in KNOWN_TRIGGERS.get(k, ())] or ["x"]
        enc = self.effective_encoding() if self.cfg["storage"] == "csv" \
            else "utf-8"
        # the temp file of a rewrite may be written in the locale encoding
        # by a correct implementation only if it equals the configured one;
        # restrict text to what every encoding in play can represent.
        encs = {enc}
        if enc in ("latin-1", "cp1252") or (
                self.cfg["storage"] == "csv" and
                self.cfg["locale"] != "utf-8" and
                self.cfg["encoding"] is None):
            if name in ("wide",):
                name = "latin1"
        a = {k: list(v) for k, v in ALPHABETS[name].items()}
        if name != "plain":
            # mix in some plain symbols so that collisions stay frequent
            for k in a:
                a[k] = a[k][:4] + ALPHABETS["plain"][k][:2] \
                    if r.random() < 0.5 else a[k]
        # drop what the effective encoding cannot represent
        for k in a:
            a[k] = [s for s in a[k] if _encodable(s, enc)] or \
                list(ALPHABETS["plain"][k])
        self.triggers = r.random() < self.prof["known_triggers"]
        if not self.triggers and self.cfg["storage"] == "csv" and \
                self.cfg["dialect"] == "lf":
            # Python's csv writer does not quote a bare CR when the line
            # terminator is LF, while the reader ends the row there: a
            # limitation of the platform recorded as a known finding; the
            # bulk of the runs stays clear of it.
            for k in a:
                a[k] = [x for x in a[k] if "\r" not in x] or \
                    list(ALPHABETS["plain"][k])
        # keep alphabets small: collisions, duplicates, overlaps are the norm
        a["m"] = r.sample(a["m"], min(len(a["m"]), r.choice([2, 3])))
        a["tk"] = r.sample(a["tk"], min(len(a["tk"]), r.choice([2, 3, 4])))
        a["fk"] = r.sample(a["fk"], min(len(a["fk"]), r.choice([2, 3, 4])))
        a["tv"] = r.sample(a["tv"], min(len(a["tv"]), r.choice([3, 4, 6])))
        if self.triggers:
            a["m"] = a["m"][:2] + KNOWN_TRIGGERS["m"]
            a["tv"] = a["tv"][:3] + KNOWN_TRIGGERS["tv"]
        if self.prof.get("long_strings") and r.random() < \
                self.prof["long_strings"]:
            # a value longer than the I/O buffers and the text chunk
            n = r.choice([300, 4100, 8200, 20000])
            unit = r.choice(["L", "ab,", 'q"', "x\ny", "é"])
            if _encodable(unit, enc):
                a["tv"] = a["tv"][:2] + [(unit * n)[:n]]
                # keep the number of simulated I/O calls bounded
                if self.cfg.get("text_chunk") in (1, 16):
                    self.cfg["text_chunk"] = 512
                if self.cfg.get("bufsize", 8192) < 512:
                    self.cfg["bufsize"] = 512
        self.alpha_name = name
        return a

    # -- values ---------------------------------------------------------------
    def gen_instant(self):
        """An instant (aware UTC datetime) relative to what is stored."""
        r = self.rng
        now = self.w.clock.now
        pts = self.w.model.points
        tp = self.time_profile
        us = _dt.timedelta(microseconds=1)
        if self.prof["time"] == "rich" and tp != "inorder":
            # the instant whose timestamp is 0.0 (falsy in Python), first in
            # storage or directly followed by an older one
            epoch = _dt.datetime(1970, 1, 1, tzinfo=UTC)
            if not pts and r.random() < 0.03:
                return epoch
            if pts and pts[-1].t == epoch and r.random() < 0.5:
                return epoch - r.choice([1, 10 ** 6, 43200 * 10 ** 6]) * us
        if pts and r.random() < 0.55:
            base = r.choice(pts).t
            latest = max(p.t for p in pts)
            c = r.random()
            if tp == "inorder":
                return latest + r.choice([0, 1, 1000, 10 ** 6,
                                          3600 * 10 ** 6]) * us
            if tp == "ties" or c < 0.2:
                return base
            if tp == "adjacent" or c < 0.45:
                return base + r.choice([-1, 1, 2, -2]) * us
            if c < 0.6:
                return latest + r.choice([1, 1000, 10 ** 6]) * us
            if c < 0.75:
                return min(p.t for p in pts) - r.choice([1, 10 ** 6]) * us
            return base + r.randint(-10 ** 9, 10 ** 9) * us
        if self.prof["time"] == "rich" and r.random() < 0.08:
            # instants at which second counters are special (epoch zero and
            # its neighbours, 32-bit limits)
            base = r.choice([0, 0, -1, 1, 2 ** 31 - 1, 2 ** 31, -2 ** 31,
                             2 ** 32, 10 ** 9, -10 ** 9])
            us_off = r.choice([0, 0, 1, -1, 999999, -999999, 500000])
            return _dt.datetime(1970, 1, 1, tzinfo=UTC) + _dt.timedelta(
                seconds=base, microseconds=us_off)
        if self.prof["time"] == "rich" and r.random() < 0.12:
            year = r.choice([1700, 1701, 1883, 1969, 1970, 2038, 2239, 2240])
            return _dt.datetime(year, r.randint(1, 12), r.randint(1, 28),
                                r.randint(0, 23), r.randint(0, 59),
                                r.randint(0, 59), r.randint(0, 999999),
                                tzinfo=UTC)
        return now + r.randint(-5 * 10 ** 9, 5 * 10 ** 9) * us * (
            0 if tp == "inorder" else 1)

    def gen_time_json(self, allow_none=True, allow_naive=True, rich=None):
        """Time of a point as JSON, in some representation."""
        r = self.rng
        if allow_none and r.random() < 0.2:
            return None
        t = self.gen_instant()
        if rich is None:
            rich = self.prof["time"] == "rich"
        if not rich:
            return catalog.time_to_json(t)
        c = r.random()
        if c < 0.3:
            return catalog.time_to_json(t)
        if c < 0.4:
            # aware in a named zone (tzinfo is a ZoneInfo, not a fixed offset)
            zone = r.choice(["Europe/London", "Africa/Abidjan",
                             "America/New_York", "Asia/Kathmandu",
                             "Australia/Lord_Howe", "UTC"])
            local = t.astimezone(catalog._zone(zone))
            j = {"iso": local.replace(tzinfo=None).isoformat(),
                 "zone": zone}
            if local.fold:
                j["fold"] = 1
            return j
        if c < 0.65 or not allow_naive:
            tz = _dt.timezone(_dt.timedelta(minutes=r.choice(OFFSETS_MIN)))
            return catalog.time_to_json(t.astimezone(tz))
        if c < 0.8:
            s = r.choice(TRANSITIONS.get(self.w.tz, TRANSITIONS["UTC"]))
            n = _dt.datetime.fromisoformat(s) + _dt.timedelta(
                microseconds=r.choice([0, 0, 1, -1, 60 * 10 ** 6]))
            if r.random() < 0.3:
                n = n.replace(fold=1)
            return {"iso": n.isoformat(), "fold": n.fold} if n.fold else \
                {"iso": n.isoformat()}
        n = t.astimezone().replace(tzinfo=None)  # local wall time, naive
        return {"iso": n.isoformat()}

    def gen_rhs_time(self):
        r = self.rng
        t = self.gen_instant()
        if self.prof["time"] == "rich" and r.random() < 0.6:
            tz = _dt.timezone(_dt.timedelta(minutes=r.choice(OFFSETS_MIN)))
            t = t.astimezone(tz)
        return catalog.time_to_json(t)

    def gen_tags(self):
        r = self.rng
        a = self.alpha
        n = r.choice([0, 1, 1, 2, 2, 3])
        tags = {}
        for k in r.sample(a["tk"], min(n, len(a["tk"]))):
            c = r.random()
            if c < self.prof["none_values"]:
                tags[k] = None
            elif c < self.prof["none_values"] + 0.07:
                tags[k] = ""
            else:
                tags[k] = r.choice(a["tv"])
        return tags

    def gen_fields(self):
        r = self.rng
        a = self.alpha
        n = r.choice([0, 1, 1, 2, 2, 3])
        fields = {}
        for k in r.sample(a["fk"], min(n, len(a["fk"]))):
            if r.random() < self.prof["none_values"]:
                fields[k] = None
            else:
                fields[k] = r.choice(self.nums)
        return fields

    def gen_point(self):
        r = self.rng
        pt = {"time": self.gen_time_json()}
        if r.random() < 0.8:
            pt["m"] = r.choice(self.alpha["m"])
        tags = self.gen_tags()
        fields = self.gen_fields()
        if tags or r.random() < 0.3:
            pt["tags"] = tags
        if fields or r.random() < 0.3:
            pt["fields"] = fields
        if r.random() < 0.25:
            pt["ctor"] = "empty"
        return pt

    # -- queries ----------------------------------------------------------------
    def present(self, what):
        pts = self.w.model.points
        if what == "m":
            return sorted({p.m for p in pts})
        if what == "tk":
            return sorted({k for p in pts for k in p.tags})
        if what == "fk":
            return sorted({k for p in pts for k in p.fields})

    def gen_leaf(self):
        r = self.rng
        a = self.alpha
        pts = self.w.model.points
        attr = _w(r, self.prof.get("leaf_attr",
                                   {"time": 3, "measurement": 1.5, "tag": 3,
                                    "field": 3}))
        kind = _w(r, {"cmp": 6, "exists": 1, "re": 1, "test": 1.2,
                      "noop": 0.5})
        if attr in ("time", "measurement") and kind == "exists":
            kind = "cmp"
        if attr in ("time", "field") and kind == "re":
            kind = "cmp"
        if kind == "noop":
            return {"k": "noop", "attr": attr}
        if attr in ("tag", "field") and r.random() < self.prof.get(
                "premap_prob", 0.06):
            return self.gen_premap_leaf(attr)
        q = {"k": kind, "attr": attr}
        vals = None
        if attr == "tag":
            keys = self.present("tk") or a["tk"]
            q["key"] = r.choice(keys + a["tk"][:1]) if r.random() < 0.9 \
                else "absent_key"
            vals = sorted({p.tags[q["key"]] for p in pts
                           if q["key"] in p.tags
                           and p.tags[q["key"]] is not None}) or a["tv"]
        elif attr == "field":
            keys = self.present("fk") or a["fk"]
            q["key"] = r.choice(keys + a["fk"][:1]) if r.random() < 0.9 \
                else "absent_key"
            vals = [p.fields[q["key"]] for p in pts
                    if q["key"] in p.fields
                    and p.fields[q["key"]] is not None] or self.nums
        # maps
        maps = []
        if kind != "exists" and r.random() < self.prof.get("map_prob", 0.15):
            want = {"time": "time", "measurement": "str", "tag": "str",
                    "field": "num"}[attr]
            cands = [n for n, (i, o) in catalog.MAP_SIG.items() if i == want]
            name = r.choice(cands)
            maps.append(name)
            q["maps"] = maps
        out_type = {"time": "time", "measurement": "str", "tag": "str",
                    "field": "num"}[attr]
        if maps:
            out_type = catalog.MAP_SIG[maps[-1]][1]
            natural = {"time": "time", "measurement": "str", "tag": "str",
                       "field": "num"}[attr]
            if out_type != natural and kind in ("cmp", "re"):
                # the API only accepts right-hand sides of the attribute's
                # own type: a type-changing map can only feed a test()
                kind = q["k"] = "test"
            if kind == "re" and out_type != "str":
                kind = q["k"] = "test"
        if kind == "cmp":
            q["op"] = r.choice(["==", "!=", "<", "<=", ">", ">="])
            if out_type == "time":
                q["rhs"] = self.gen_rhs_time()
            elif out_type == "str":
                if attr == "measurement":
                    src = (self.present("m") or a["m"]) + ["absent_m"]
                else:
                    src = list(vals) + ["absent_v"]
                v = r.choice(src)
                for mname in maps:
                    try:
                        v = catalog.MAPS[mname](v)
                    except Exception:
                        pass
                q["rhs"] = v if isinstance(v, str) else str(v)
                if q["rhs"] == "" and r.random() < 0.8:
                    q["rhs"] = "x"
            else:
                if attr == "field" and not maps:
                    v = r.choice(list(vals))
                else:
                    v = r.choice([0, 1, 2, 3, 0.5, 2022, 500000, -1])
                if r.random() < 0.3 and isinstance(v, (int, float)) and \
                        v == v and abs(v) < 1e15:
                    v = v + r.choice([-1, 1, 0.5])
                q["rhs"] = v
            if q["rhs"] is None:
                q["rhs"] = 0
        elif kind == "re":
            pat, flags = r.choice(REGEXES)
            q["fn"] = r.choice(["matches", "search"])
            q["pat"] = pat
            q["flags"] = flags
        elif kind == "test":
            if out_type == "time":
                name = r.choice(["t_us_odd", "t_after", "t_minute_lt30",
                                 "always"])
            elif out_type == "num" and attr != "field":
                name = r.choice(["num_pos", "num_even", "num_ge", "always",
                                 "never"])
            else:
                name = r.choice(["is_none", "not_none", "num_pos",
                                 "num_even", "num_ge", "str_has",
                                 "str_short", "str_empty", "always",
                                 "never"])
            q["f"] = name
            if name == "t_after":
                q["args"] = [self.gen_instant().isoformat()]
            elif name == "num_ge":
                q["args"] = [r.choice([0, 1, 2])]
            elif name == "str_has":
                q["args"] = [r.choice(["x", "y", "m", "1"])]
        return q

    def gen_premap_leaf(self, attr):
        """A query whose path starts with a function of the whole tag / field
        set (TagQuery().map(f)...)."""
        r = self.rng
        a = self.alpha
        name = r.choice(["dict_len", "dict_get_a", "dict_keys"])
        q = {"attr": attr, "premaps": [name]}
        if name == "dict_len":
            if attr == "field" and r.random() < 0.5:
                q.update(k="cmp", op=r.choice(["==", ">=", "<", "!="]),
                         rhs=r.choice([1, 2, 3]))
            else:
                q.update(k="test", f=r.choice(["num_ge", "num_even",
                                               "num_pos"]))
                if q["f"] == "num_ge":
                    q["args"] = [r.choice([1, 2])]
        elif name == "dict_get_a":
            if attr == "tag" and r.random() < 0.5:
                q.update(k="cmp", op=r.choice(["==", "!="]),
                         rhs=r.choice(a["tv"]) or "x")
            elif attr == "field" and r.random() < 0.5:
                q.update(k="cmp", op=r.choice(["==", "!=", ">"]),
                         rhs=r.choice([1, 2, 0.5]))
            else:
                q.update(k="test", f=r.choice(["is_none", "not_none"]))
        else:
            keys = a["tk"] if attr == "tag" else a["fk"]
            if attr == "tag" and r.random() < 0.5:
                q.update(k="cmp", op=r.choice(["==", "!="]),
                         rhs=",".join(sorted(r.sample(keys, min(
                             len(keys), r.choice([1, 2]))))) or "x")
            else:
                q.update(k="test", f="str_has", args=[r.choice(keys) or "a"])
        return q

    def gen_query(self, depth=None):
        r = self.rng
        if depth is None:
            depth = r.choice([0, 0, 1, 1, 2, self.qdepth])
        if depth <= 0:
            return self.gen_leaf()
        c = r.random()
        if c < 0.35:
            return {"k": "not", "q": self.gen_query(depth - 1)}
        if c < 0.7:
            return {"k": "and", "a": self.gen_query(depth - 1),
                    "b": self.gen_query(r.choice([0, depth - 1]))}
        return {"k": "or", "a": self.gen_query(depth - 1),
                "b": self.gen_query(r.choice([0, depth - 1]))}

    def gen_mfilter(self):
        r = self.rng
        if r.random() >= self.prof["measurement_filter"]:
            return None
        src = (self.present("m") or self.alpha["m"]) + ["absent_m"]
        return r.choice(src + self.alpha["m"])

    # -- update specs --------------------------------------------------------------
    def gen_update_spec(self):
        r = self.rng
        a = self.alpha
        names = ["time", "measurement", "tags", "fields", "unset_tags",
                 "unset_fields"]
        if self.prof.get("update_args"):
            names = list(self.prof["update_args"])
        k = r.choice([1, 1, 1, 2, 2, 3, len(names)])
        chosen = r.sample(names, min(k, len(names)))
        spec = {}
        for n in chosen:
            static = r.random() < 0.55
            if n == "time":
                rich = self.prof["time"] == "rich" or \
                    self.prof.get("update_time_rich", False)
                if static:
                    spec[n] = {"static": self.gen_time_json(False,
                                                            rich=rich)}
                else:
                    fn = r.choice(["shift", "shift", "identity", "fixed",
                                   "floor_sec"] + (
                        ["to_zone", "to_naive_local", "fixed"]
                        if rich else []))
                    s = {"fn": fn}
                    if fn == "shift":
                        s["arg"] = r.choice([1, -1, 10 ** 6, -3600 * 10 ** 6,
                                             86400 * 10 ** 6, -10 ** 9])
                    elif fn == "fixed":
                        s["arg"] = self.gen_time_json(False, rich=rich)
                    elif fn == "to_zone":
                        s["arg"] = r.choice(OFFSETS_MIN)
                    spec[n] = s
            elif n == "measurement":
                if static:
                    spec[n] = {"static": r.choice(a["m"])}
                else:
                    fn = r.choice(["const", "suffix", "identity", "upper"])
                    if fn == "upper" and self.cfg["storage"] == "csv" and \
                            not self.effective_encoding().startswith("utf"):
                        fn = "identity"  # upper() may leave the code page
                    s = {"fn": fn}
                    if fn == "const":
                        s["arg"] = r.choice(a["m"])
                    elif fn == "suffix":
                        s["arg"] = r.choice(["_x", "2"])
                    spec[n] = s
            elif n == "tags":
                d = self.gen_tags() or {r.choice(a["tk"]): r.choice(a["tv"])}
                if static:
                    spec[n] = {"static": d}
                else:
                    fn = r.choice(["merge_const", "only_const", "identity",
                                   "empty", "upper_values", "none_values",
                                   "inplace_merge"])
                    if fn == "upper_values" and self.cfg["storage"] == \
                            "csv" and not self.effective_encoding(
                            ).startswith("utf"):
                        fn = "identity"
                    s = {"fn": fn}
                    if fn in ("merge_const", "only_const", "inplace_merge"):
                        s["arg"] = d
                    spec[n] = s
            elif n == "fields":
                d = self.gen_fields() or {r.choice(a["fk"]):
                                          r.choice(self.nums)}
                if static:
                    spec[n] = {"static": d}
                else:
                    fn = r.choice(["merge_const", "only_const", "identity",
                                   "empty", "scale", "incr_all",
                                   "inplace_merge"])
                    s = {"fn": fn}
                    if fn in ("merge_const", "only_const", "inplace_merge"):
                        s["arg"] = d
                    elif fn == "scale":
                        s["arg"] = [r.choice(a["fk"]), r.choice([2, 0.5, 1,
                                                                 -1])]
                    spec[n] = s
            elif n == "unset_tags":
                ks = r.sample(a["tk"], r.choice([1, 1, 2]) if len(a["tk"]) > 1
                              else 1)
                spec[n] = ks[0] if len(ks) == 1 and ks[0] != "" and \
                    r.random() < 0.5 else ks
            elif n == "unset_fields":
                ks = r.sample(a["fk"], r.choice([1, 1, 2]) if len(a["fk"]) > 1
                              else 1)
                spec[n] = ks[0] if len(ks) == 1 and ks[0] != "" and \
                    r.random() < 0.5 else ks
        return spec

    # -- routing ------------------------------------------------------------------
    def route(self, op, need_m=False):
        """Decide db-level vs handle-level routing."""
        r = self.rng
        if r.random() < self.prof["via_h"]:
            m = op.get("m")
            if m is None:
                m = r.choice((self.present("m") or self.alpha["m"]) +
                             self.alpha["m"] + ["absent_m"])
            if m == "":
                return op
            op["m"] = m
            op["via"] = "h"
            if m in self.handles_seen and r.random() < 0.6:
                op["hmode"] = "cached"
            self.handles_seen.add(m)
        return op

    # -- operations -----------------------------------------------------------------
    def op_insert(self):
        r = self.rng
        op = {"op": "insert", "pt": self.gen_point()}
        if r.random() < 0.3:
            op["m"] = r.choice(self.alpha["m"])
        if r.random() < self.prof["compact"]:
            op["compact"] = True
        return self.route(op)

    def op_insert_multiple(self):
        r = self.rng
        n = r.choice([0, 1, 2, 2, 3, 4])
        op = {"op": "insert_multiple",
              "pts": [self.gen_point() for _ in range(n)]}
        if r.random() < 0.3:
            op["m"] = r.choice(self.alpha["m"])
        if r.random() < 0.4:
            op["gen"] = True
        if r.random() < self.prof["compact"]:
            op["compact"] = True
        return self.route(op)

    def op_bulk(self):
        """Many points at once (hundreds): files larger than every buffer,
        index structures with many entries."""
        r = self.rng
        n = r.choice([40, 120, 300])
        pts = []
        t0 = self.gen_instant()
        for j in range(n):
            pt = {"time": catalog.time_to_json(
                t0 + _dt.timedelta(microseconds=r.choice([1, 1000, -500,
                                                           0]) * j)),
                  "m": r.choice(self.alpha["m"])}
            if r.random() < 0.7:
                pt["tags"] = {r.choice(self.alpha["tk"]):
                              r.choice(self.alpha["tv"][:3])}
            if r.random() < 0.7:
                pt["fields"] = {r.choice(self.alpha["fk"]): j % 7}
            pts.append(pt)
        op = {"op": "insert_multiple", "pts": pts}
        if r.random() < 0.5:
            op["gen"] = True
        return op

    def op_update(self):
        op = {"op": "update", "q": self.gen_query(),
              "spec": self.gen_update_spec()}
        m = self.gen_mfilter()
        if m is not None:
            op["m"] = m
        return self.route(op)

    def op_update_all(self):
        return self.route({"op": "update_all",
                           "spec": self.gen_update_spec()})

    def op_remove(self):
        op = {"op": "remove", "q": self.gen_query()}
        m = self.gen_mfilter()
        if m is not None:
            op["m"] = m
        return self.route(op)

    def op_remove_all(self):
        return self.route({"op": "remove_all"})

    def op_drop(self):
        r = self.rng
        return {"op": "drop", "name": r.choice(
            (self.present("m") or self.alpha["m"]) + ["absent_m"])}

    def op_read(self):
        r = self.rng
        k = r.choice(["search", "search", "count", "contains", "get",
                      "select"])
        op = {"op": k, "q": self.gen_query()}
        m = self.gen_mfilter()
        if m is not None:
            op["m"] = m
        if k == "search":
            op["sorted"] = r.random() < 0.5
        if k == "select":
            keys = []
            pool = ["time", "measurement"] + \
                ["tags." + x for x in self.alpha["tk"] if x] + \
                ["fields." + x for x in self.alpha["fk"] if x] + \
                ["tags.absent_key", "fields.absent_key"]
            keys = r.sample(pool, r.choice([1, 1, 2, 3]))
            op["keys"] = keys[0] if len(keys) == 1 and r.random() < 0.5 \
                else keys
        if r.random() < self.prof["scan"]:
            op["scan"] = True
        return self.route(op)

    def op_getter(self):
        r = self.rng
        k = r.choice(["get_measurements", "get_tag_keys", "get_tag_values",
                      "get_field_keys", "get_field_values", "get_timestamps",
                      "len", "all", "iter"])
        op = {"op": k}
        if k in ("get_tag_keys", "get_tag_values", "get_field_keys",
                 "get_field_values", "get_timestamps"):
            m = self.gen_mfilter()
            if m is not None:
                op["m"] = m
        if k == "get_tag_values" and r.random() < 0.6:
            pool = (self.present("tk") or []) + self.alpha["tk"] + \
                ["absent_key"]
            op["keys"] = sorted(set(r.sample(pool, r.choice([1, 2, 3]))))
        if k == "get_field_values":
            op["key"] = r.choice((self.present("fk") or []) +
                                 self.alpha["fk"] + ["absent_key"])
        if k == "all":
            op["sorted"] = r.random() < 0.5
        if r.random() < self.prof["scan"]:
            op["scan"] = True
        if k == "get_measurements":
            return op
        return self.route(op)

    def op_cursor(self):
        r = self.rng
        c = r.random()
        n = len(self.w.model.points)
        if c < 0.35:
            return {"op": "iter", "take": r.randint(0, max(n, 1))}
        if c < 0.6:
            return {"op": "get", "q": self.gen_query(0)}
        if c < 0.75:
            return {"op": "contains", "q": self.gen_query(0)}
        if c < 0.9:
            return {"op": "iter_suspend", "take": r.randint(0, max(n, 1))}
        return {"op": "iter_resume", "take": r.randint(1, 3)}

    def op_lifecycle(self):
        r = self.rng
        if self.cfg["storage"] != "csv":
            return {"op": "reindex"} if r.random() < 0.5 else \
                {"op": "index_valid"}
        c = r.random()
        if c < 0.25:
            return {"op": "reindex"}
        if self.prof.get("other_db") and r.random() < self.prof["other_db"]:
            return {"op": "other_db", "dialect": r.choice(
                ["default", "semicolon_all", "tab", "pipe_sq", "lf"])}
        cfgc = {}
        op = {"op": "reopen", "how": "close", "cfg": cfgc}
        if self.prof["abandon"] and r.random() < self.prof["abandon"] and \
                self.cfg["flush_on_insert"]:
            op["how"] = "abandon"
        if r.random() < 0.4 and len(self.prof["auto_index"]) > 1:
            cfgc["auto_index"] = r.choice([True, False])
        if len(self.prof["zones"]) > 1 and r.random() < 0.7:
            cfgc["tz"] = r.choice(self.prof["zones"])
        if self.prof.get("external") and r.random() < self.prof["external"]:
            op["external"] = r.choice(["lf_quoted", "quoted"])
        modes = self.prof["modes"]
        if len(modes) > 1:
            mode = r.choice(modes)
            ai = cfgc.get("auto_index", self.w.auto_index)
            if mode == "a" and ai:
                cfgc["auto_index"] = False
            cfgc["access_mode"] = mode
        return op

    def op_reindex(self):
        return {"op": "reindex"}

    def op_clock(self):
        r = self.rng
        d = r.choice([0, 0, 1, 1, 1000, 10 ** 6, 60 * 10 ** 6,
                      86400 * 10 ** 6, -1, -10 ** 6, -3600 * 10 ** 6])
        return {"op": "clock", "delta_us": d}

    # -- ill-typed / invalid (C14, C11) ---------------------------------------------------
    BAD_VALUES = {
        "time": [5, 1.5, True, "2020-01-01T00:00:00", None, [1],
                 {"$tfsim$": "bytes", "v": "t"}, {"a": 1}],
        "measurement": [5, 1.5, True, None, ["m"], {"$tfsim$": "bytes", "v": "m"},
                        {"a": 1}],
        "tag_key": [5, 1.5, True, None, {"$tfsim$": "bytes", "v": "k"},
                    {"$tfsim$": "tuple", "v": ["a"]}],
        "tag_value": [5, 1.5, True, False, ["x"], {"a": "b"},
                      {"$tfsim$": "bytes", "v": "v"}],
        "field_key": [5, 1.5, True, None, {"$tfsim$": "bytes", "v": "k"}],
        "field_value": ["1", "x", True, False, [1], {"a": 1},
                        {"$tfsim$": "bytes", "v": "1"}, ""],
        "tags": [5, "a", ["a", "b"], None, {"$tfsim$": "set", "v": ["a"]}],
        "fields": [5, "a", ["a", 1], None, {"$tfsim$": "set", "v": ["a"]}],
    }

    def bad_container(self, slot):
        """A well-formed container with one ill-typed slot -> (which, json)"""
        r = self.rng
        a = self.alpha
        v = r.choice(self.BAD_VALUES[slot])
        if slot == "tag_key":
            return "tags", {"$tfsim$": "pairs", "v": [[v, r.choice(["x", None])]]}
        if slot == "tag_value":
            base = [[k, x] for k, x in self.gen_tags().items()]
            return "tags", {"$tfsim$": "pairs",
                            "v": base + [[r.choice(a["tk"]), v]]}
        if slot == "field_key":
            return "fields", {"$tfsim$": "pairs", "v": [[v, r.choice([1, None])]]}
        if slot == "field_value":
            base = [[k, x] for k, x in self.gen_fields().items()]
            return "fields", {"$tfsim$": "pairs",
                              "v": base + [[r.choice(a["fk"]), v]]}
        if slot in ("tags", "fields"):
            return slot, v
        return slot, v

    def op_illtyped(self):
        r = self.rng
        slot = r.choice(["time", "measurement", "tag_key", "tag_value",
                         "field_key", "field_value", "tags", "fields"])
        which, val = self.bad_container(slot)
        entry = _w(r, self.prof.get("illtyped_entries",
                                    {"ctor": 1, "assign": 1, "update_static":
                                     3, "update_callable": 4,
                                     "insert_nonpoint": 1.5,
                                     "insert_mutated": 1.5}))
        if entry in ("ctor", "assign"):
            if val is None and which in ("tags", "fields", "time"):
                if entry == "ctor" or which == "time":
                    pass
            return {"op": "bad_point", "slot": which, "value": val,
                    "how": entry}
        if entry == "update_static":
            if val is None or val in (0, "", [], {}) or val is False:
                val = 5  # falsy values mean "argument absent"
                if which in ("tags", "fields"):
                    val = 5
            spec = {}
            if r.random() < 0.6:
                # other, valid arguments ride along with the invalid one
                spec = self.gen_update_spec()
            spec[which] = {"static": val}
            op = {"op": r.choice(["update", "update_all"]),
                  "spec": spec, "expect_raise": "bad"}
            if op["op"] == "update":
                op["q"] = self.gen_query(0)
            return self.route(op)
        if entry == "update_callable":
            spec = self.gen_update_spec()
            fnname = {"time": "identity", "measurement": "identity",
                      "tags": "identity", "fields": "identity"}[which]
            spec[which] = {"fn": fnname}
            if r.random() < 0.5:
                op = {"op": "update_all", "spec": spec}
            else:
                op = {"op": "update", "q": self.gen_query(0), "spec": spec}
            n = r.choice([0, 0, 1, 2])
            op["cfault"] = {"which": which, "n": n, "kind": "ret",
                            "value": val}
            if which == "fields" and r.random() < 0.35:
                # a bool that compares equal to the number it replaces
                op["cfault"] = {"which": "fields", "n": r.choice([1, 1, 2]),
                                "kind": "boolify"}
                op["spec"]["fields"] = {"fn": r.choice(
                    ["identity", "merge_const"]), "arg": {
                    r.choice(self.alpha["fk"]): r.choice([0, 1, 1.0])}}
            return self.route(op)
        if entry == "insert_nonpoint":
            raw = r.choice([5, "point", None, {"time": 1}, ["p"], 1.5])
            if r.random() < 0.4:
                return self.route({"op": "insert", "pt": {"raw": raw}})
            pts = [self.gen_point() for _ in range(r.choice([1, 2, 3]))]
            pts.insert(r.randint(0, len(pts)), {"raw": raw})
            op = {"op": "insert_multiple", "pts": pts}
            if r.random() < 0.5:
                op["gen"] = True
            return self.route(op)
        # insert_mutated: the caller put an ill-typed value into the dict it
        # got from point.tags / point.fields
        if slot in ("tag_key", "tag_value", "field_key", "field_value"):
            v = r.choice(self.BAD_VALUES[slot])
            if v is None:
                v = 5
            pt = self.gen_point()
            if slot.startswith("tag"):
                pt["tags"] = pt.get("tags") or {}
                mut = {"slot": "tags"}
            else:
                pt["fields"] = pt.get("fields") or {}
                mut = {"slot": "fields"}
            if slot.endswith("key"):
                mut["key"], mut["v"] = v, ("x" if slot == "tag_key" else 1)
            else:
                mut["key"] = r.choice(self.alpha["tk"] if slot ==
                                      "tag_value" else self.alpha["fk"])
                mut["v"] = v
            pt["mutate"] = mut
            return self.route({"op": "insert", "pt": pt})
        return {"op": "bad_point", "slot": which, "value": val,
                "how": "ctor"}

    def op_invalid(self):
        """Invalid arguments and failing collaborators (C11)."""
        r = self.rng
        c = _w(r, {"no_args": 1, "bad_query": 1.5, "bad_unset": 1,
                   "bad_select": 1, "collab_raise": 6, "gen_raise": 3,
                   "qtest_raise": 2, "nonpoint": 2, "falsy": 1})
        if c == "no_args":
            op = {"op": r.choice(["update", "update_all"]), "spec": {},
                  "expect_raise": "bad"}
            if op["op"] == "update":
                op["q"] = self.gen_query(0)
            return self.route(op)
        if c == "falsy":
            spec = {r.choice(["tags", "fields"]): {"static": {}}}
            op = {"op": "update_all", "spec": spec, "expect_raise": "bad"}
            return self.route(op)
        if c == "bad_query":
            bad = {"bad": r.choice([5, "q", None, [1]])}
            k = r.choice(["search", "count", "contains", "get", "remove",
                          "update", "select"])
            if bad["bad"] is None and k == "update":
                bad = {"bad": 5}
            op = {"op": k, "q": bad}
            if k == "update":
                op["spec"] = self.gen_update_spec()
            if k == "select":
                op["keys"] = ["time"]
            return self.route(op)
        if c == "bad_unset":
            which = r.choice(["unset_tags", "unset_fields"])
            op = {"op": "update_all", "spec": {which: r.choice(
                [5, [1, 2], ["a", 5], {"$tfsim$": "bytes", "v": "a"}])},
                "expect_raise": "bad"}
            return self.route(op)
        if c == "bad_select":
            op = {"op": "select", "q": self.gen_query(0),
                  "keys": r.choice([5, ["nope"], ["tags."], ["fields."],
                                    "tags", [5]]), "bad_keys": True}
            return self.route(op)
        if c == "collab_raise":
            spec = self.gen_update_spec()
            which = r.choice(["time", "measurement", "tags", "fields"])
            if which not in spec or "static" in spec[which]:
                spec[which] = {"fn": "identity"}
            if r.random() < 0.5:
                op = {"op": "update_all", "spec": spec}
            else:
                op = {"op": "update", "q": self.gen_query(
                    r.choice([0, 0, 1])), "spec": spec}
                m = self.gen_mfilter()
                if m is not None:
                    op["m"] = m
            n = r.choice([0, 0, 1, 1, 2, 3, 5])
            op["cfault"] = {"which": which, "n": n,
                            "kind": r.choice(["raise", "raise", "raise",
                                              "interrupt"])}
            return self.route(op)
        if c == "gen_raise":
            pts = [self.gen_point() for _ in range(r.choice([0, 1, 2, 3]))]
            op = {"op": "insert_multiple", "pts": pts, "gen": True,
                  "poison": {"at": r.randint(0, len(pts)),
                             "kind": "raise"}}
            return self.route(op)
        if c == "nonpoint":
            pts = [self.gen_point() for _ in range(r.choice([1, 2, 3]))]
            pts.insert(r.randint(0, len(pts)),
                       {"raw": r.choice([5, "p", None, {"a": 1}])})
            op = {"op": "insert_multiple", "pts": pts}
            if r.random() < 0.5:
                op["gen"] = True
            return self.route(op)
        # qtest_raise: the user's test function fails at its first call
        leaf = None
        for _ in range(8):
            cand = self.gen_leaf()
            if cand["k"] == "test":
                leaf = cand
                break
        if leaf is None:
            leaf = {"k": "test", "attr": "measurement", "f": "always"}
        k = r.choice(["remove", "update", "search", "count"])
        op = {"op": k, "q": leaf,
              "cfault": {"which": "qtest", "n": 0, "kind": "raise"}}
        if k == "update":
            op["spec"] = self.gen_update_spec()
        return self.route(op)

    # -- the history ------------------------------------------------------------------
    def emit(self, ops, op):
        """Advance the dry world by op and append it."""
        w = self.w
        k = op["op"]
        cap = self.prof["max_points"] + (400 if self.bulked else 0)
        if len(w.model.points) > cap and k in ("insert", "insert_multiple"):
            op = {"op": "remove", "q": self.gen_query(1)} \
                if self.prof["mix"].get("remove") else \
                {"op": "get_measurements"}
            k = op["op"]
        w.expect(op)
        if k == "reopen":
            c = op.get("cfg") or {}
            w.auto_index = c.get("auto_index", w.auto_index)
            w.mode = c.get("access_mode", w.mode)
            if c.get("tz"):
                w.tz = c["tz"]
                set_tz(w.tz)
        elif k == "clock":
            w.clock.move(op["delta_us"])
        ops.append(op)

    def history(self):
        r = self.rng
        p = self.prof
        set_tz(self.cfg["tz"])
        try:
            lo, hi = p["len"]
            n = lo + int((hi - lo) * (r.random() ** 2))  # many short runs
            ops = []
            mix = dict(p["mix"])
            if self.cfg["storage"] != "csv":
                mix["cursor"] = 0
            if not self.cfg["auto_index"] and mix.get("read", 0) + mix.get(
                    "remove", 0) + mix.get("update", 0) > 0:
                # without automatic indexing the index is only ever used
                # after an explicit reindex(): make that common
                mix["reindex"] = 1.2
            # a prefix of inserts so that most runs have something stored
            for _ in range(r.choice([0, 1, 2, 3, 4])):
                self.emit(ops, self.op_insert())
            while len(ops) < n:
                c = _w(r, mix)
                if c == "bulk":
                    if self.bulked:
                        continue
                    self.bulked = True
                    if self.cfg.get("text_chunk") in (1, 16):
                        self.cfg["text_chunk"] = 64
                    if self.cfg.get("bufsize", 8192) < 512:
                        self.cfg["bufsize"] = 512
                op = getattr(self, "op_" + c)()
                self.emit(ops, op)
                if c in ("insert", "insert_multiple", "update", "update_all",
                         "remove", "remove_all", "drop", "lifecycle",
                         "reindex"):
                    a, b = p["reads_after"]
                    for _ in range(r.randint(a, b)):
                        rd = self.op_read() if r.random() < p.get(
                            "read_vs_getter", 0.7) else self.op_getter()
                        self.emit(ops, rd)
                if mix.get("clock") and r.random() < 0.3:
                    self.emit(ops, self.op_clock())
            return ops
        finally:
            set_tz("UTC")


def _encodable(s, enc):
    try:
        s.encode(enc)
        return True
    except UnicodeEncodeError:
        return False


def generate(seed, prof, prop, tier="quick"):
    g = Gen(seed, prof, prop, tier)
    ops = g.history()
    return g.cfg, ops
