"""Import the tinyflux package under test from the /repo working tree."""

import importlib
import os
import sys

from .simdisk import HarnessError


def load_tinyflux():
    repo = os.environ.get("VERIF_REPO", "/repo")
    repo = os.path.abspath(repo)
    if sys.path[0] != repo:
        sys.path.insert(0, repo)
    for name in list(sys.modules):
        if name == "tinyflux" or name.startswith("tinyflux."):
            f = getattr(sys.modules[name], "__file__", "") or ""
            if not f.startswith(repo + os.sep):
                del sys.modules[name]
    tf = importlib.import_module("tinyflux")
    if not os.path.abspath(tf.__file__).startswith(repo + os.sep):
        raise HarnessError("tinyflux imported from %s, expected %s"
                           % (tf.__file__, repo))
    return tf
