#!/bin/sh
# confirm + run own-property quick check for every seeded change available
for d in /verif/seeded/C*-${1:-[0-9]}; do
  b=$(basename $d); id=${b%-*}; n=${b#*-}
  [ -f $d/patch.diff ] || continue
  c=$(/venv/bin/python /verif/tools/seedcheck.py confirm $id $n | /venv/bin/python -c "import json,sys; d=json.load(sys.stdin); print('confirmed' if d['ok'] else 'NOTCONFIRMED '+json.dumps(d)[:200])")
  r=$(/venv/bin/python /verif/tools/seedcheck.py run $id $n | /venv/bin/python -c "
import json,sys; d=json.load(sys.stdin)
for p,v in d.items(): print(p, 'rc=%s'%v['rc'], '%ss'%v['s'], (v['lines'][0][:160] if v['lines'] else ''))")
  echo "$id-$n $c | $r"
done
