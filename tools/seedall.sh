#!/bin/sh
# confirm + run own-property quick check for every seeded change available
for d in /tmp/seed-C*/out/[12]; do
  id=$(echo $d | sed 's#/tmp/seed-\(C[0-9]*\)/out/.*#\1#'); n=$(basename $d)
  [ -f $d/patch.diff ] || continue
  c=$(/venv/bin/python /verif/tools/seedcheck.py confirm $id $n | /venv/bin/python -c "import json,sys; d=json.load(sys.stdin); print('confirmed' if d['ok'] else 'NOTCONFIRMED '+json.dumps(d)[:200])")
  r=$(/venv/bin/python /verif/tools/seedcheck.py run $id $n | /venv/bin/python -c "
import json,sys; d=json.load(sys.stdin)
for p,v in d.items(): print(p, 'rc=%s'%v['rc'], '%ss'%v['s'], (v['lines'][0][:160] if v['lines'] else ''))")
  echo "$id-$n $c | $r"
done
