"""Developer tool: search seeds for a violation class, minimise it, store it.

  python tools/find.py PROP --oracle SUBSTR [--msg SUBSTR] [--seeds N] [--start S] [--save NAME] [--cfg JSON]
"""
import argparse, json, os, sys
sys.path.insert(0, "/verif")
os.environ.setdefault("PYTHONHASHSEED", "0")
from tfsim import gen, profiles, runner
from tfsim.minimise import minimise

ap = argparse.ArgumentParser()
ap.add_argument("prop")
ap.add_argument("--oracle", default="")
ap.add_argument("--msg", default="")
ap.add_argument("--seeds", type=int, default=3000)
ap.add_argument("--start", type=int, default=0)
ap.add_argument("--save", default=None)
ap.add_argument("--tier", default="quick")
ap.add_argument("--show", type=int, default=1)
a = ap.parse_args()
agg = runner.Agg()
found = 0
for seed in range(a.start, a.start + a.seeds):
    agg.failures = []
    runner.explore_seed(a.prop, seed, a.tier, agg)
    for (s, cfg, ops, vio, how) in agg.failures:
        if a.oracle in vio["oracle"] and a.msg in vio["message"]:
            key = (vio["property"], vio["oracle"])
            mcfg, mops, n = minimise(a.prop, cfg, ops, key, how, budget_s=30)
            r = runner.evaluate(a.prop, mcfg, mops, how)
            if r.violation is None or a.msg not in r.violation["message"]:
                continue
            print("seed", seed, "->", r.violation["property"], r.violation["oracle"], "|", r.violation["message"][:500])
            print(" cfg", json.dumps({k: v for k, v in mcfg.items() if v != runner.DEFAULT_CFG.get(k)}))
            for o in mops: print("  ", json.dumps(o))
            if a.save:
                d = os.path.join("/verif/regress", a.prop); os.makedirs(d, exist_ok=True)
                path = os.path.join(d, a.save + ".json")
                json.dump({"property": r.violation["property"], "oracle": r.violation["oracle"], "message": r.violation["message"], "seed": seed, "evaluate": how, "cfg": mcfg, "ops": mops}, open(path, "w"), indent=1, sort_keys=True)
                print(" saved", path)
            found += 1
            if found >= a.show: sys.exit(0)
    for s, h in agg.harness[:1]:
        print("HARNESS", s, h); sys.exit(2)
print("not found; foreign:", agg.foreign)
