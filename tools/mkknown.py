"""Developer tool: produce the replay file of a known finding.
  python tools/mkknown.py PROP PREDICATE ID [--seeds N]
Searches seeds with the known triggers switched on, minimises, keeps a case
whose minimised form satisfies PREDICATE."""
import argparse, json, os, sys
sys.path.insert(0, "/verif")
from tfsim import gen, profiles, runner, known
from tfsim.minimise import minimise
ap = argparse.ArgumentParser()
ap.add_argument("prop"); ap.add_argument("pred"); ap.add_argument("id")
ap.add_argument("--seeds", type=int, default=600)
ap.add_argument("--dialect", default=None)
a = ap.parse_args()
prof = dict(profiles.get(a.prop)); prof["known_triggers"] = 1.0
if a.dialect: prof["cfg_override"] = dict(prof.get("cfg_override") or {}, dialect=a.dialect)
pred = known.PREDICATES[a.pred]
how = runner.evaluator_for(a.prop)
for seed in range(a.seeds):
    cfg, ops = gen.generate(seed, prof, a.prop)
    r = runner.evaluate(a.prop, cfg, ops, how)
    if r.violation is None: continue
    key = (r.violation["property"], r.violation["oracle"])
    mcfg, mops, n = minimise(a.prop, cfg, ops, key, how, budget_s=30)
    r = runner.evaluate(a.prop, mcfg, mops, how)
    if r.violation is None or not pred(mcfg, mops): continue
    os.makedirs("/verif/known", exist_ok=True)
    path = "/verif/known/%s.json" % a.id
    json.dump({"property": r.violation["property"], "oracle": r.violation["oracle"], "message": r.violation["message"], "seed": seed, "evaluate": how, "cfg": mcfg, "ops": mops}, open(path, "w"), indent=1, sort_keys=True)
    print(a.id, r.violation["oracle"], r.violation["message"][:300])
    for o in mops: print("  ", json.dumps(o))
    sys.exit(0)
print("not found"); sys.exit(1)
