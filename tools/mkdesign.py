"""Developer tool: refresh the commit hashes in DESIGN.md section 12.2 from
known_findings.json (which tools/mkfindings.py derives from /repo's log)."""
import json, re
kf = json.load(open("/verif/known_findings.json"))["findings"]
by_reg = {}
for f in kf:
    if f["status"] == "fixed":
        key = f["replay"].split("/")[-1].split("-")[0]   # F01, F09b ...
        by_reg[f["replay"].split("/")[1] + "/" + key] = f["commit"]
s = open("/verif/DESIGN.md").read()
def fix(m):
    row = m.group(0)
    refs = re.findall(r"`(C\d\d/F\d+b?)`", row)
    for r in refs:
        if r in by_reg:
            return re.sub(r"^\| [0-9a-f]{7} \|", "| %s |" % by_reg[r], row)
    return row
s2 = re.sub(r"^\| [0-9a-f]{7} \|.*$", fix, s, flags=re.M)
open("/verif/DESIGN.md", "w").write(s2)
print("rows refreshed:", sum(1 for a, b in zip(s.splitlines(), s2.splitlines()) if a != b))
