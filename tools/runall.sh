#!/bin/sh
# run every quick (or $1) check and print a summary line per property
tier=${1:-quick}
cd /verif
for p in C01 C02 C03 C04 C05 C06 C07 C08 C10 C11 C12 C13 C14 C15 C16; do
  start=$(date +%s)
  out=$(timeout 3000 /venv/bin/python -m tfsim.cli check --property $p --tier $tier 2>&1)
  rc=$?
  end=$(date +%s)
  echo "$p rc=$rc $((end-start))s $(echo "$out" | grep '^runs=')"
  echo "$out" | grep -E "VIOLATION|HARNESS|^  C[0-9]" | cut -c1-600
done
