"""Developer smoke runner: python tools/smoke.py PROP NSEEDS [profile kwargs as python dict]"""
import sys, traceback, collections, time, json
sys.path.insert(0, "/verif")
from tfsim.loader import load_tinyflux
tf = load_tinyflux()
from tfsim import gen, world
from tfsim import profiles
prop = sys.argv[1]
n = int(sys.argv[2])
start = int(sys.argv[3]) if len(sys.argv) > 3 else 0
prof = profiles.PROFILES[prop]
viol = collections.Counter(); examples = {}
t0 = time.time(); foreign = collections.Counter(); ops_n = 0
for seed in range(start, start + n):
    cfg, ops = gen.generate(seed, prof, prop)
    ops_n += len(ops)
    w = world.World(cfg, prop, tf)
    try:
        w.run(ops)
        if w.foreign:
            fk=(tuple(sorted(w.foreign.owners)), w.foreign.oracle); foreign[fk] += 1; examples.setdefault(('FOREIGN',)+fk, (seed, cfg, str(w.foreign)[:700]))
    except world.Violation as v:
        key = (prop, v.oracle); viol[key] += 1
        examples.setdefault(key, (seed, cfg, str(v)[:600]))
    except Exception as e:
        key = (prop, 'HARNESS', type(e).__name__, str(e)[:100]); viol[key] += 1
        if key not in examples: examples[key] = (seed, cfg, traceback.format_exc()[-1800:])
dt = time.time() - t0
print("runs %d ops %d in %.1fs (%.0f runs/s)" % (n, ops_n, dt, n / dt))
for k, v in sorted(viol.items()): print("VIOL", k, v)
for k, v in sorted(foreign.items()): print("FOREIGN", k, v)
for k, v in examples.items():
    print('---', k, 'seed', v[0], json.dumps({a: b for a, b in v[1].items() if b != world.DEFAULT_CFG.get(a)})); print(v[2])
