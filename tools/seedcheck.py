"""Developer tool: confirm a seeded change and run checks against it.

  python tools/seedcheck.py confirm  <id> <n>          # tests pass + demo fails with, passes without
  python tools/seedcheck.py run      <id> <n> [props]  # run quick checks (default: the property itself) against it
Source: /tmp/seed-<id>/out/<n>/ (or /verif/seeded/<id>-<n>/), worktree /tmp/seed-<id>/wt
"""
import json, os, subprocess, sys, time

def sh(cmd, **kw):
    return subprocess.run(cmd, shell=True, capture_output=True, text=True, **kw)

def paths(pid, n):
    src = "/verif/seeded/%s-%s" % (pid, n)
    if not os.path.isdir(src):
        src = "/tmp/seed-%s/out/%s" % (pid, n)
    wt = "/tmp/seed-%s/wt" % pid
    try:
        import re
        m = re.search(r"(/tmp/seed\d?-[A-Z0-9]+/wt)", open(src + "/demo.py").read())
        if m:
            wt = m.group(1)
    except OSError:
        pass
    if not os.path.isdir(wt):
        sh("git -C /repo worktree add -q --detach %s HEAD" % wt)
    return src, wt

def confirm(pid, n):
    src, wt = paths(pid, n)
    sh("git -C %s checkout -- ." % wt)
    r = sh("git -C %s apply %s/patch.diff" % (wt, src))
    if r.returncode: return {"ok": False, "why": "patch does not apply: " + r.stderr[-300:]}
    try:
        t = sh("cd %s && /venv/bin/python -m pytest -q -p no:cacheprovider tests 2>&1 | tail -1" % wt)
        tests_ok = t.stdout.strip().startswith("149 passed")
        demo = open(src + "/demo.py").read()
        d1 = sh("cd /tmp && timeout 300 /venv/bin/python %s/demo.py" % src)
    finally:
        sh("git -C %s checkout -- ." % wt)
    d0 = sh("cd /tmp && timeout 300 /venv/bin/python %s/demo.py" % src)
    ok = tests_ok and d1.returncode == 1 and d0.returncode == 0
    return {"ok": ok, "tests": t.stdout.strip(), "demo_with": d1.returncode, "demo_without": d0.returncode,
            "demo_output": (d1.stdout + d1.stderr)[-600:]}

def run(pid, n, props):
    src, wt = paths(pid, n)
    sh("git -C %s checkout -- ." % wt)
    r = sh("git -C %s apply %s/patch.diff" % (wt, src))
    if r.returncode: return {"error": r.stderr}
    out = {}
    try:
        for p in props:
            t0 = time.time()
            env = dict(os.environ, VERIF_REPO=wt, VERIF_EVIDENCE_DIR="/tmp/seed-evidence")
            c = subprocess.run("cd /verif && timeout 1200 /venv/bin/python -m tfsim.cli check --property %s --tier quick" % p,
                               shell=True, capture_output=True, text=True, env=env)
            lines = [l for l in c.stdout.splitlines() if l.startswith("  C") or "VIOLATION" in l or "HARNESS" in l]
            out[p] = {"rc": c.returncode, "s": round(time.time() - t0, 1), "lines": [l[:300] for l in lines[:6]]}
    finally:
        sh("git -C %s checkout -- ." % wt)
    return out

if __name__ == "__main__":
    cmd, pid, n = sys.argv[1:4]
    if cmd == "confirm":
        print(json.dumps(confirm(pid, n), indent=1))
    else:
        props = sys.argv[4:] or [pid]
        print(json.dumps(run(pid, n, props), indent=1))
