#!/bin/sh
# all quick checks under several VERIF_SEED values (false-alarm hunt on the unchanged tree)
cd /verif
for s in ${@:-2 3 4 5 6 7}; do
  for p in C01 C02 C03 C04 C05 C06 C07 C08 C10 C11 C12 C13 C14 C15 C16; do
    out=$(VERIF_SEED=$s VERIF_EVIDENCE_DIR=/tmp/seedsweep-ev timeout 3000 /venv/bin/python -m tfsim.cli check --property $p --tier quick 2>&1); rc=$?
    echo "seed=$s $p rc=$rc $(echo "$out" | grep '^runs=' | cut -c1-80)"
    [ $rc -ne 0 ] && echo "$out" | grep -E "VIOLATION|HARNESS|^  C[0-9]" | cut -c1-500
  done
done
