"""Developer tool: /tmp/seedmatrix.jsonl -> /verif/seeded/MATRIX.md"""
import json
rows = [json.loads(l) for l in open("/tmp/seedmatrix.jsonl") if l.strip()]
props = ["C01","C02","C03","C04","C05","C06","C07","C08","C10","C11","C12","C13","C14","C15","C16"]
out = ["# Seeded changes x checks (quick tier, reduced batch size)", "",
       "`X` = the check exits 1 with a VIOLATION line on the tree with the change applied, `.` = silent, `E` = harness error.",
       "Rows: seeded change (target property is the prefix). A check other than the target firing is expected where the change also breaks that property",
       "(see the notes below the table for the cases that were examined).", "",
       "| change | " + " | ".join(props) + " |", "|---|" + "---|" * len(props)]
for r in rows:
    cells = []
    for p in props:
        rc = r["results"].get(p, {}).get("rc")
        cells.append({0: ".", 1: "X", 2: "E"}.get(rc, "?"))
    out.append("| %s | %s |" % (r["mutant"], " | ".join(cells)))
open("/verif/seeded/MATRIX.md", "w").write("\n".join(out) + "\n")
print(len(rows), "rows")
