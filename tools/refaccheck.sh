#!/bin/sh
# every check (quick tier, reduced batches) against every behaviour-preserving refactoring: must all stay silent
export VERIF_RUNS_DIV=${VERIF_RUNS_DIV:-2}
for d in ${@:-/tmp/refac-*/out/[123]}; do
  [ -f $d/patch.diff ] || continue
  wt=$(echo $d | sed 's#/out/.*#/wt#')
  git -C $wt checkout -q -- . ; git -C $wt apply $d/patch.diff || { echo "$d: patch does not apply"; continue; }
  t=$(cd $wt && /venv/bin/python -m pytest -q -p no:cacheprovider tests 2>&1 | tail -1)
  echo "== $d tests: $t"
  for p in C01 C02 C03 C04 C05 C06 C07 C08 C10 C11 C12 C13 C14 C15 C16; do
    out=$(cd /verif && VERIF_REPO=$wt VERIF_EVIDENCE_DIR=/tmp/refac-ev timeout 1800 /venv/bin/python -m tfsim.cli check --property $p --tier quick 2>&1); rc=$?
    [ $rc -ne 0 ] && { echo "  $p rc=$rc"; echo "$out" | grep -E "VIOLATION|HARNESS|^  C[0-9]" | cut -c1-700 | head -6; }
  done
  git -C $wt checkout -q -- .
done
echo REFAC-DONE
