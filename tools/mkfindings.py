"""Developer tool: (re)generate /verif/known_findings.json from the tables
below (open findings + fixed defects with their commit in /repo)."""
import json, subprocess

OPEN = [
  ("KF1", "empty_measurement", ["C04", "C05"],
   ["state-vs-model", "reopen-vs-model", "unexpected-exception"],
   "a measurement name '' is written as the reserved word '_none' and read back as '_none' (and an insert(measurement='') argument is ignored): CSV format limitation, repair would change the file format / ~25 'if measurement:' call sites"),
  ("KF2", "none_sentinel_tag_value", ["C04", "C05"],
   ["state-vs-model", "reopen-vs-model"],
   "a tag value equal to the reserved word '_none' is read back as None (and an update/remove whose query names that value therefore misses the stored point, e.g. leaves its time unchanged): collision with the None sentinel of the CSV format, not repairable without changing the format"),
  ("KF3", "csv_lf_dialect_with_cr", ["C04", "C05"],
   ["file-undecodable", "state-vs-model", "reopen-vs-model", "unexpected-exception", "reopen-failed", "reopen-read-failed"],
   "with the csv option lineterminator='\\n' a string containing a bare CR is written unquoted by Python's csv.writer and split into two rows by csv.reader: limitation of the csv module that tinyflux passes the dialect options to"),
]

FIXED = [
  # (property, regress file, commit subject prefix, what failed)
  ("C06", "regress/C06/F01-index-remove-renumber.json", "fix: keep the index's time-sorted position array", "after a partial remove/drop the valid index answers time queries with stale storage positions"),
  ("C06", "regress/C06/F02-index-reset.json", "fix: reset the index's storage-position array", "after remove_all + insert the index's time arrays have different lengths"),
  ("C01", "regress/C01/F06-regex-on-none-tag.json", "fix: regex queries evaluate to False", "matches()/search() on a tag whose value is None raises TypeError from count/search/remove/update"),
  ("C02", "regress/C02/F03-remove-not-field.json", "fix: evaluate negated field queries", "remove(~FieldQuery) deletes points that do not match (index candidates treated as matches)"),
  ("C03", "regress/C03/F04-field-map-via-index.json", "fix: do not answer queries with a map()", "FieldQuery().k.map(f) compares the unmapped value on the index path"),
  ("C02", "regress/C02/F04b-time-map-via-index.json", "fix: do not answer queries with a map()", "TimeQuery().map(f) <= t compares the unmapped time on the index path"),
  ("C01", "regress/C01/F05-noop-via-index.json", "fix: noop queries match points without tags", "TagQuery().noop() misses points without tags when served by the index"),
  ("C07", "regress/C07/F07-field-values-leak.json", "fix: get_field_values(key, measurement)", "get_field_values(key, measurement) returns values of other measurements with a valid index"),
  ("C07", "regress/C07/F08-len-counts-lines.json", "fix: len() of a CSV store counts rows", "len(db) without a valid index counts lines, not rows"),
  ("C15", "regress/C15/F12-temp-file-leak.json", "fix: remove the temporary file of update/remove", "every update/remove leaves a temporary file behind"),
  ("C06", "regress/C06/F13-aborted-insert-multiple-stale-index.json", "fix: an aborted insert_multiple", "insert_multiple aborted by a raising iterable leaves an empty index flagged valid (auto_index off)"),
  ("C11", "regress/C11/F14-memory-update-half-applied.json", "fix: a failed update() restores", "memory storage: an update whose callable fails at the k-th point leaves the earlier points modified"),
  ("C11", "regress/C11/F14b-memory-update-interrupted.json", "fix: a failed update() restores", "memory storage: an update interrupted by a BaseException (KeyboardInterrupt style) in a callable leaves earlier points modified"),
  ("C14", "regress/C14/F16-callable-result-unvalidated.json", "fix: validate the tag and field sets returned", "a tags/fields callable returning a mapping with an ill-typed entry is accepted"),
  ("C14", "regress/C14/F23-insert-mutated-point.json", "fix: insert() validates the tag and field sets", "insert accepts a Point whose tag/field dict was mutated to hold an ill-typed value"),
  ("C08", "regress/C08/F15-update-time-not-normalised.json", "fix: update(time=...) converts the new time to UTC", "update(time=...) stores non-UTC / naive datetimes as they are"),
  ("C04", "regress/C04/F09-temp-file-encoding-utf16.json", "fix: write the temporary file of update/remove in the database's encoding", "utf-16 database unreadable after an update (temp file in locale encoding)"),
  ("C04", "regress/C04/F09b-temp-file-encoding-mojibake.json", "fix: write the temporary file of update/remove in the database's encoding", "latin-1 database: non-ASCII text turns into mojibake after an update"),
  ("C04", "regress/C04/F10-temp-not-flushed.json", "fix: flush the temporary file before it replaces", "flush_on_insert=False: update/remove drops rows still buffered in the temp file"),
  ("C12", "regress/C12/F11-crash-during-swap.json", "fix: replace the primary file atomically", "process death while the temp file is copied over the primary leaves an empty/partial database"),
  ("C13", "regress/C13/F17-failed-append-index-not-told.json", "fix: invalidate the index when appending", "after a failed flush/fsync in insert the index answers without the point that storage holds"),
  ("C13", "regress/C13/F22-partial-index-flagged-valid.json", "fix: an index is flagged valid only once", "an I/O error during the index rebuild leaves a partial index flagged valid"),
  ("C03", "regress/C03/F24-update-in-w-plus-mode-truncates.json", "fix: update/remove in access mode \"w+\"", "in access mode w+ an update truncates the database when the primary file is reopened"),
  ("C06", "regress/C06/F26-failed-deferred-flush-in-read.json", "fix: an operation that fails with an OSError invalidates", "flush_on_insert=False: a deferred flush failing inside a read loses the buffered row and the index stays valid counting it"),
  ("C06", "regress/C06/F26b-failed-deferred-flush-in-iter.json", "fix: an operation that fails with an OSError invalidates", "flush_on_insert=False: a deferred flush failing while the database is iterated loses the buffered row and the index stays valid counting it"),
  ("C06", "regress/C06/F26c-failed-deferred-flush-in-remove-all.json", "fix: an operation that fails with an OSError invalidates", "flush_on_insert=False: a deferred flush failing at the rewind of remove_all loses the buffered row and the index stays valid counting it"),
  ("C05", "regress/C05/F19-int-precision.json", "fix: integer field values that a float cannot represent", "integers beyond 2**53 lose precision through CSV storage"),
]

def commit_of(prefix):
    out = subprocess.run(["git", "-C", "/repo", "log", "--format=%h %s"], capture_output=True, text=True).stdout
    for line in out.splitlines():
        h, _, subj = line.partition(" ")
        if subj.startswith(prefix):
            return h
    raise SystemExit("no commit for %r" % prefix)

findings = []
for kid, pred, props, oracles, what in OPEN:
    for p in props:
        findings.append({"id": "%s-%s" % (kid, p), "property": p, "status": "open",
                         "signature": {"oracles": oracles, "predicate": pred},
                         "what": what, "replay": "known/%s-%s-%s.json" % (kid, p, {"KF1": "empty-measurement", "KF2": "none-sentinel", "KF3": "csv-lf-cr"}[kid])})
for p, reg, prefix, what in FIXED:
    h = commit_of(prefix)
    findings.append({"id": reg.split("/")[-1][:-5], "property": p, "status": "fixed", "commit": h,
                     "what": what, "replay": reg,
                     "line": "fixed: property=%s %s %s" % (p, h, what)})
json.dump({"findings": findings}, open("/verif/known_findings.json", "w"), indent=1)
print(len(findings), "entries")
