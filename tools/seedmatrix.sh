#!/bin/sh
# every seeded change x every check (quick tier), results as JSON lines in /tmp/seedmatrix.jsonl
export VERIF_WORKERS=${VERIF_WORKERS:-8}
export VERIF_RUNS_DIV=${VERIF_RUNS_DIV:-4}
: > /tmp/seedmatrix.jsonl
for d in /verif/seeded/C*-*; do
  b=$(basename $d); id=${b%-*}; n=${b#*-}
  /venv/bin/python /verif/tools/seedcheck.py run $id $n C01 C02 C03 C04 C05 C06 C07 C08 C10 C11 C12 C13 C14 C15 C16 | /venv/bin/python -c "
import json,sys; d=json.load(sys.stdin); print(json.dumps({'mutant':'$b','results':{p:{'rc':v['rc'],'first':(v['lines'][0][:200] if v['lines'] else '')} for p,v in d.items()}}))" >> /tmp/seedmatrix.jsonl
done
echo done
