#!/bin/sh
# usage: fixcommit.sh <message-file>   (commits /repo working tree only if the pinned suite passes)
set -e
cd /repo
out=$(/venv/bin/python -m pytest -q -p no:cacheprovider tests 2>&1 | tail -1)
echo "$out"
case "$out" in
  "149 passed"*) git commit -qa -F "$1" && git log --oneline | head -1 ;;
  *) echo "NOT COMMITTED"; exit 1 ;;
esac
